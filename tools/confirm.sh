#!/bin/bash
# usage: confirm.sh <agent> <n>   -> prints one line; writes $D/confirm.log
export GOFLAGS=-mod=mod GOPROXY=off GOSUMDB=off GOTOOLCHAIN=local
A=$1; N=$2; WT=/tmp/wt/$A; D=/tmp/seedout/$A/change$N
pk=$(grep -m1 "^package" $D/demo_test.go | awk '{print $2}' | sed 's/_test$//')
case $pk in fastq) dir=io/seqio/fastq;; fasta) dir=io/seqio/fasta;; gff) dir=io/featio/gff;; bed) dir=io/featio/bed;; morass) dir=morass;; concurrent) dir=concurrent;; seqio) dir=io/seqio;; featio) dir=io/featio;; linear) dir=seq/linear;; alphabet) dir=alphabet;; feat) dir=feat;; seq) dir=seq;; *) echo "$A $N unknown package $pk"; exit 9;; esac
SUITE="./io/... ./morass/... ./concurrent/... ./align/pals/... ./seq/... ./alphabet/... ./feat/..."
cd $WT && git checkout -q -- . && git clean -fdq
{
echo "== clean tree + demo"; cp $D/demo_test.go $dir/zz_demo_test.go; timeout 600 go test -vet=off -count=1 ./$dir 2>&1 | tail -5; c1=${PIPESTATUS[0]}
rm -f $dir/zz_demo_test.go
echo "== apply"; git apply $D/patch.diff; ap=$?
echo "== build"; go build ./... 2>&1 | tail -3; b=${PIPESTATUS[0]}
echo "== mutated tree, existing suite"; timeout 900 go test -vet=off -count=1 $SUITE 2>&1 | grep -v "no test files" | tail -30; s=${PIPESTATUS[0]}
echo "== mutated tree + demo"; cp $D/demo_test.go $dir/zz_demo_test.go; timeout 900 go test -vet=off -count=1 ./$dir 2>&1 | tail -15; m=${PIPESTATUS[0]}
} > $D/confirm.log 2>&1
git checkout -q -- . && git clean -fdq
echo "$A change$N clean+demo=$c1 apply=$ap build=$b suite=$s mutated+demo=$m  (want 0 0 0 0 nonzero)"
