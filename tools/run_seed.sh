#!/bin/bash
# usage: run_seed.sh <agent> <change-number> <prop> [tier]
A=$1; N=$2; P=$3; T=${4:-quick}
WT=/tmp/wt/$A; D=/tmp/seedout/$A/change$N
cd $WT && git checkout -q -- . && git clean -fdq && git apply $D/patch.diff || { echo "APPLY FAILED $A $N"; exit 9; }
cd /verif && VERIF_REPO=$WT ./check $P $T > $D/check_$P.$T.out 2>&1; rc=$?
cd $WT && git checkout -q -- . && git clean -fdq
echo "$A change$N $P $T rc=$rc $(grep -c '^VIOLATION' $D/check_$P.$T.out) violations: $(grep '^violation' $D/check_$P.$T.out | cut -c1-150 | head -3 | tr '\n' '|')"
