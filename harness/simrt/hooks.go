package simrt

import (
	"fmt"
	"reflect"
	"runtime"
)

// Hooks is the object installed into the woven packages' VerifRT variable. Its
// method set matches the VerifRuntime interface the weaver generates. A call
// from a goroutine the current run does not know (a finalizer, a goroutine
// left over from an earlier run, or no run at all) passes straight through.
type Hooks struct{}

var Global = Hooks{}

// cur identifies the calling goroutine. Between two scheduling decisions
// exactly one simulated goroutine executes code outside the hooks (the one
// the scheduler released), so the caller of a Pre-type hook is that goroutine;
// reading the goroutine id from a stack dump costs ~5 us and is only done on
// a sample of calls, as a check of that invariant. Goroutines that are woken
// by another goroutine's operation run nothing but their Post hook, which
// identifies them by the token their Pre hook returned.
func cur() (*Sim, *G) {
	s := current.Load()
	if s == nil {
		return nil, nil
	}
	g := s.cur
	if g == nil || g.state != gRunning {
		return nil, nil
	}
	s.idChecks++
	if s.idChecks&63 == 1 || s.paranoid {
		if id := goid(); id != g.goid {
			s.mu.Lock()
			s.toolErr("a goroutine the simulator did not release reached a hook (goid %d, expected g%d=%d)", id, g.ID, g.goid)
			s.mu.Unlock()
			return nil, nil
		}
	}
	return s, g
}

func (s *Sim) byTok(tok int) *G {
	if tok < 1 {
		return nil
	}
	s.mu.Lock()
	defer s.mu.Unlock()
	if tok-1 < len(s.byID) {
		return s.byID[tok-1]
	}
	return nil
}

func (Hooks) Pre(kind int, obj interface{}, site string) int {
	s, g := cur()
	if g == nil {
		return -1
	}
	s.park(g, pending{phase: phPre, kind: Kind(kind), obj: objKey(obj), keep: obj, site: site})
	return g.ID
}

// CondAdd registers the caller as a waiter of the sync.Cond obj (the first
// half of Cond.Wait; it does not yield).
func (Hooks) CondAdd(obj interface{}, site string) int {
	s, g := cur()
	if g == nil {
		return -1
	}
	s.mu.Lock()
	p := pending{obj: objKey(obj), keep: obj}
	cs := s.condOf(&p)
	g.condNotified = false
	cs.waiters = append(cs.waiters, g)
	s.logf("g%d condadd #%d %s", g.ID, s.label(p.obj, obj), site)
	s.mu.Unlock()
	return g.ID
}

func (Hooks) Post(tok int, kind int, obj interface{}, site string, aux int) {
	s := current.Load()
	if s == nil {
		return
	}
	g := s.byTok(tok)
	if g == nil {
		return
	}
	s.park(g, pending{phase: phPost, kind: Kind(kind), obj: objKey(obj), keep: obj, site: site, aux: aux})
}

func (Hooks) Acc(addr interface{}, name string, write bool, site string) {
	s, g := cur()
	if g == nil {
		return
	}
	s.mu.Lock()
	s.access(g, objKey(addr), addr, name, write, site)
	s.mu.Unlock()
}

// AccIdx records accesses to n elements of a slice starting at index first
// (first < 0: starting at len(slice), i.e. an in-place append).
func (Hooks) AccIdx(slice interface{}, first, n int, name string, write bool, site string) {
	s, g := cur()
	if g == nil {
		return
	}
	v := reflect.ValueOf(slice)
	if v.Kind() != reflect.Slice || v.Cap() == 0 {
		return
	}
	if first < 0 {
		first = v.Len()
		if first+n > v.Cap() {
			return // the append reallocates: the old array is only read, the new one is private
		}
	}
	base := v.Pointer()
	es := v.Type().Elem().Size()
	if es == 0 {
		return
	}
	s.mu.Lock()
	for k := first; k < first+n && k < v.Cap(); k++ {
		if k < 0 {
			continue
		}
		s.access(g, base+uintptr(k)*es, slice, name, write, site)
	}
	s.mu.Unlock()
}

// IOPre yields before an I/O call and tells the trampoline what to do:
// mode 0 = perform the call, 1 = skip it and return err, 2 = perform it and
// return err in place of its error result.
func (Hooks) IOPre(kind string, site string) (int, int, error) {
	s, g := cur()
	if g == nil {
		return -1, 0, nil
	}
	s.park(g, pending{phase: phPre, kind: KIO, site: site, ioKind: kind})
	return g.ID, g.ioMode, g.ioErr
}

func (Hooks) IOPost(tok int, kind string, site string) {
	s := current.Load()
	if s == nil {
		return
	}
	g := s.byTok(tok)
	if g == nil {
		return
	}
	s.park(g, pending{phase: phPost, kind: KIO, site: site, ioKind: kind})
}

// Spawn is called by the parent immediately before a go statement.
func (Hooks) Spawn(site string) int {
	s, g := cur()
	if g == nil {
		return -1
	}
	s.mu.Lock()
	c := s.newG(site, site, g)
	s.logf("g%d spawns g%d %s", g.ID, c.ID, site)
	s.mu.Unlock()
	return c.ID
}

// Spawned is the parent's yield point after the go statement.
func (Hooks) Spawned(tok int, site string) {
	s, g := cur()
	if g == nil {
		return
	}
	s.park(g, pending{phase: phPost, kind: KSpawn, site: site})
}

// Start is the first thing a woven goroutine does.
func (Hooks) Start(tok int) {
	if tok < 0 {
		return
	}
	s := current.Load()
	if s == nil {
		return
	}
	s.mu.Lock()
	var g *G
	if tok-1 < len(s.byID) {
		g = s.byID[tok-1]
	}
	s.mu.Unlock()
	if g == nil || g.state != gNew {
		return
	}
	s.bind(g)
	s.park(g, pending{phase: phPre, kind: KStart, site: g.SpawnSite})
}

// Exit is called from the woven deferred function of every goroutine with the
// value recover() returned there.
func (Hooks) Exit(tok int, r interface{}) {
	s := current.Load()
	var g *G
	if s != nil && tok >= 1 {
		s.mu.Lock()
		if tok-1 < len(s.byID) {
			g = s.byID[tok-1]
		}
		s.mu.Unlock()
	}
	if g == nil {
		if r != nil {
			panic(r) // not ours: behave like the unwoven code
		}
		return
	}
	s.exit(g, r, 2)
}

// Unsupported is called when control reaches a construct the weaver could not
// model (e.g. a select with several communication cases). Inside a run this is
// a tooling error, never a violation.
func (Hooks) Unsupported(what string, site string) {
	s, g := cur()
	if g == nil {
		return
	}
	s.mu.Lock()
	s.toolErr("unsupported construct executed: %s at %s", what, site)
	s.mu.Unlock()
}

// SelectPre yields before a multi-case select and returns the caller's token
// and the index of the case to try first. The start index is a function of
// the schedule so far (no extra choice stream): replayable, and it varies as
// schedules vary.
func (Hooks) SelectPre(site string, n int) (int, int) {
	s, g := cur()
	if g == nil {
		return -1, 0
	}
	s.park(g, pending{phase: phPre, kind: KYield, site: site})
	start := 0
	if n > 0 {
		start = (s.steps + g.ID) % n
	}
	return g.ID, start
}

// SelectBlock is called when no case was ready and the goroutine is about to
// block in the real select. FIFO matching of operations is no longer known
// for these channels, so their happens-before edges are over-approximated.
func (Hooks) SelectBlock(tok int, site string, chans []interface{}) {
	s := current.Load()
	if s == nil || s.byTok(tok) == nil {
		return
	}
	s.mu.Lock()
	for _, c := range chans {
		p := pending{obj: objKey(c), keep: c}
		s.chanOf(&p).weak = true
	}
	s.Probes["blocking_multi_case_select"]++
	s.mu.Unlock()
}

func (Hooks) SelectPost(tok int, site string, ch interface{}, send bool, taken int) {
	s := current.Load()
	if s == nil {
		return
	}
	g := s.byTok(tok)
	if g == nil {
		return
	}
	kind := KSelRecv
	if send {
		kind = KSelSend
	}
	s.park(g, pending{phase: phPost, kind: kind, obj: objKey(ch), keep: ch, site: site, aux: taken})
}

// Yield is a plain yield point (woven time.Sleep / runtime.Gosched). It
// reports whether the caller is simulated; if not the woven code performs the
// real call.
func (Hooks) Yield(site string) bool {
	s, g := cur()
	if g == nil {
		return false
	}
	s.park(g, pending{phase: phPre, kind: KYield, site: site, label: "gosched"})
	return true
}

// Yield (package level) is a yield point for harness code.
func (s *Sim) Yield(site string) {
	g := s.lookup()
	if g == nil {
		return
	}
	s.park(g, pending{phase: phPre, kind: KYield, site: site})
}

// CloseChan lets harness code close a channel that woven code receives from
// (e.g. the reaper of concurrent.Lazily) under the simulator's eyes.
func (s *Sim) CloseChan(ch interface{}, closeIt func()) {
	tok := Global.Pre(int(KClose), ch, "harness:close")
	closeIt()
	Global.Post(tok, int(KClose), ch, "harness:close", 0)
}

// SendChan lets harness code send on a channel that woven code receives from
// (operations queued before a Processor exists) under the simulator's eyes.
func (s *Sim) SendChan(ch interface{}, sendIt func()) {
	tok := Global.Pre(int(KSend), ch, "harness:send")
	sendIt()
	Global.Post(tok, int(KSend), ch, "harness:send", 0)
}

// Go starts a further client goroutine from inside a client: the simulator
// expects it to finish (a client that cannot is a deadlock).
func (s *Sim) Go(name string, fn func()) {
	tok := Global.Spawn("client:" + name)
	if tok >= 1 {
		s.mu.Lock()
		s.byID[tok-1].Client = true
		s.byID[tok-1].Name = name
		s.mu.Unlock()
	}
	go func() {
		Global.Start(tok)
		defer func() { r := recover(); Global.Exit(tok, r) }()
		fn()
	}()
	Global.Spawned(tok, "client:"+name)
}

var _ = fmt.Sprint
var _ = runtime.GOOS
