package simrt

import (
	"fmt"
	"strings"
)

// A Chooser picks which enabled goroutine runs next. def is the default
// choice (the goroutine that ran last if it is enabled, else the lowest id);
// choosing it is recorded as 0, anything else as index+1.
type Chooser interface {
	Choose(s *Sim, enabled []*G, def *G) int
	Name() string
}

func indexOf(en []*G, g *G) int {
	for i, x := range en {
		if x == g {
			return i
		}
	}
	return 0
}

// RunToCompletion always keeps the current goroutine running: the benign
// schedule.
type RunToCompletion struct{}

func (*RunToCompletion) Choose(s *Sim, en []*G, def *G) int { return indexOf(en, def) }
func (*RunToCompletion) Name() string                       { return "rtc" }

// Newest always runs the most recently created enabled goroutine: background
// work completes as soon as it is started (the other benign schedule).
type Newest struct{}

func (*Newest) Choose(s *Sim, en []*G, def *G) int { return len(en) - 1 }
func (*Newest) Name() string                       { return "newest" }

// RandomWalk switches to a uniformly random enabled goroutine with
// probability P at every step.
type RandomWalk struct {
	R *RNG
	P float64
}

func (c *RandomWalk) Choose(s *Sim, en []*G, def *G) int {
	if len(en) > 1 && c.R.Chance(c.P) {
		return c.R.Intn(len(en))
	}
	return indexOf(en, def)
}
func (c *RandomWalk) Name() string { return fmt.Sprintf("rw(%.2f)", c.P) }

// PCT: random priorities, highest runs; at D random change points the running
// goroutine drops to the lowest priority (Burckhardt et al., ASPLOS 2010).
type PCT struct {
	R       *RNG
	D       int
	Horizon int
	prio    map[int]int
	change  map[int]bool
	low     int
	fair    *RandomWalk
}

func (c *PCT) init() {
	c.prio = map[int]int{}
	c.change = map[int]bool{}
	if c.Horizon < 1 {
		c.Horizon = 1
	}
	for i := 0; i < c.D; i++ {
		c.change[c.R.Intn(c.Horizon)] = true
	}
	c.fair = &RandomWalk{R: c.R, P: 1}
}

func (c *PCT) Choose(s *Sim, en []*G, def *G) int {
	if c.prio == nil {
		c.init()
	}
	if s.steps > s.cfg.MaxSteps/2 {
		return c.fair.Choose(s, en, def) // unfair strategies must not be mistaken for livelock
	}
	for _, g := range en {
		if _, ok := c.prio[g.ID]; !ok {
			c.prio[g.ID] = 1000 + c.R.Intn(1000000)
		}
	}
	best := 0
	for i, g := range en {
		if c.prio[g.ID] > c.prio[en[best].ID] {
			best = i
		}
	}
	if c.change[s.steps] {
		c.low--
		c.prio[en[best].ID] = c.low
		best = 0
		for i, g := range en {
			if c.prio[g.ID] > c.prio[en[best].ID] {
				best = i
			}
		}
	}
	return best
}
func (c *PCT) Name() string { return fmt.Sprintf("pct(d=%d)", c.D) }

// Starve runs goroutines whose spawn site contains Class only when nothing
// else is enabled, from step From for Len steps (or, if Mark is set, from the
// moment the mark is set); otherwise it behaves like Inner.
type Starve struct {
	Inner Chooser
	Class string
	From  int
	Len   int
	Mark  string
}

func (c *Starve) Choose(s *Sim, en []*G, def *G) int {
	if s.steps > s.cfg.MaxSteps/2 {
		return c.Inner.Choose(s, en, def)
	}
	active := false
	if c.Mark != "" {
		if at := s.MarkedAt(c.Mark); at >= 0 && s.steps < at+c.Len {
			active = true
		}
	} else if s.steps >= c.From && s.steps < c.From+c.Len {
		active = true
	}
	if !active {
		return c.Inner.Choose(s, en, def)
	}
	var keep []*G
	for _, g := range en {
		if !strings.Contains(g.SpawnSite, c.Class) {
			keep = append(keep, g)
		}
	}
	if len(keep) == 0 || len(keep) == len(en) {
		return c.Inner.Choose(s, en, def)
	}
	d := keep[0]
	for _, g := range keep {
		if g == def {
			d = g
		}
	}
	i := c.Inner.Choose(s, keep, d)
	if i < 0 || i >= len(keep) {
		i = 0
	}
	return indexOf(en, keep[i])
}
func (c *Starve) Name() string {
	return fmt.Sprintf("starve(%s,%d+%d,%s)/%s", c.Class, c.From, c.Len, c.Mark, c.Inner.Name())
}

// Replay re-executes a recorded choice list; beyond its end it keeps the
// default (choice 0). Any integer list is a valid schedule.
type Replay struct {
	List []int
}

func (c *Replay) Choose(s *Sim, en []*G, def *G) int {
	i := len(s.Choices)
	if i >= len(c.List) || c.List[i] <= 0 {
		return indexOf(en, def)
	}
	return (c.List[i] - 1) % len(en)
}
func (c *Replay) Name() string { return "replay" }
