module verif/harness

go 1.26

require (
	github.com/anishathalye/porcupine v1.3.0
	github.com/biogo/biogo v0.0.0
)

replace github.com/biogo/biogo => /repo
