package props

import (
	"fmt"
	"os"
	"runtime"
	"runtime/debug"
	"strconv"
	"testing"
	"time"
)

func envInt(name string, def int) int {
	if v := os.Getenv(name); v != "" {
		if n, err := strconv.Atoi(v); err == nil {
			return n
		}
	}
	return def
}

func TestMain(m *testing.M) {
	// GOMAXPROCS is an input of the code under test (the Processor clamps its
	// thread count to it); pin it so that a run is a function of the seed only.
	runtime.GOMAXPROCS(envInt("VERIF_GOMAXPROCS", 8))
	// unbounded recursion should die after 128 MiB of stack, not after the
	// default 1 GiB
	debug.SetMaxStack(128 << 20)
	code := m.Run()
	cleanupScratch()
	os.Exit(code)
}

// TestWorker is one worker process of ./check.
func TestWorker(t *testing.T) {
	prop := os.Getenv("VERIF_PROP")
	if prop == "" {
		t.Skip("VERIF_PROP not set")
	}
	seed, _ := strconv.ParseUint(os.Getenv("VERIF_SEED"), 10, 64)
	tier := os.Getenv("VERIF_TIER")
	RunWorker(t, prop, tier, seed, envInt("VERIF_WORKER", 0), envInt("VERIF_WORKERS", 1), envInt("VERIF_UNITS", 100),
		time.Duration(envInt("VERIF_BUDGET_S", 0))*time.Second, os.Getenv("VERIF_OUT"), os.Getenv("VERIF_REPLAY_DIR"))
}

// TestReplay re-executes a replay file. Outcome goes to stdout as
// "REPLAY reproduced|not-reproduced|tool-error ...".
func TestReplay(t *testing.T) {
	path := os.Getenv("VERIF_REPLAY")
	if path == "" {
		t.Skip("VERIF_REPLAY not set")
	}
	ok, terr := RunReplay(t, path)
	switch {
	case terr != "" && !ok:
		fmt.Printf("REPLAY tool-error %s\n", terr)
	case terr != "":
		fmt.Printf("REPLAY reproduced-with-different-log %s\n", terr)
	case ok:
		fmt.Println("REPLAY reproduced")
	default:
		fmt.Println("REPLAY not-reproduced")
	}
}
