package props

import (
	"encoding/json"
	"errors"
	"fmt"
	"math"
	"runtime"
	"sort"
	"strings"
	"testing"
	"time"

	"github.com/anishathalye/porcupine"
	"github.com/biogo/biogo/concurrent"

	"verif/harness/simrt"
)

// ---------------------------------------------------------------------------
// C19 — Processor

type ProcPlan struct {
	Threads int   `json:"threads"`
	Buffer  int   `json:"buffer"`
	Queue   int   `json:"queue"`
	Ops     []int `json:"ops"` // >0: returns that value; <0: returns error number -v; 0: returns (nil, nil)
	Waiter  bool  `json:"waiter"`
	// CollectFirst: the consumer takes exactly len(Ops) results and only then
	// is the queue closed, so a result that is never delivered cannot be
	// mistaken for the zero Result of the closed channel.
	CollectFirst bool `json:"collect_first,omitempty"`
	// Batch > 1: operations are submitted Batch at a time (Process is variadic).
	Batch int `json:"batch,omitempty"`
	// DrainAfterWait (only when len(Ops) <= Buffer): one client submits
	// everything, closes the queue, waits, and only then collects the results:
	// the result buffer was asked to be large enough for that.
	DrainAfterWait bool `json:"drain_after_wait,omitempty"`
	// PreClosed: the operations are queued and the queue is closed before the
	// Processor is built (the queue is the caller's channel), so workers may
	// finish while NewProcessor is still starting their siblings.
	PreClosed bool `json:"pre_closed,omitempty"`
}

// Operations numbered <= panicBase panic instead of returning; the Processor
// documents that it recovers them into an error Result (the worker then ends,
// so a workload holds fewer panicking operations than workers).
const panicBase = -100000

// Operations numbered >= bothBase return a value together with an error (an
// Operator is free to): the one result must carry both.
const bothBase = 1000000

// effectiveThreads is what NewProcessor documents: a thread count below 1 or
// above GOMAXPROCS means GOMAXPROCS (pinned by the harness).
func effectiveThreads(t int) int {
	if m := runtime.GOMAXPROCS(0); t < 1 || t > m {
		return m
	}
	return t
}

type procOp struct{ v int }

type procErr struct{ n int }

func (e procErr) Error() string { return fmt.Sprintf("operation error %d", e.n) }

func (o procOp) Operation() (interface{}, error) {
	if o.v <= panicBase {
		k := panicBase - o.v
		if k%3 == 2 {
			panic(7000000 + k) // a payload that is neither a string nor an error
		}
		if k%2 == 1 {
			// a runtime error (an index out of range that names the operation)
			// rather than an explicit panic
			var a []int
			_ = a[k]
		}
		panic(fmt.Sprintf("operation %d panics", k))
	}
	if o.v >= bothBase {
		return o.v, procErr{o.v}
	}
	if o.v < 0 {
		return nil, procErr{-o.v}
	}
	if o.v == 0 {
		return nil, nil
	}
	return o.v, nil
}

const procWorkerSite = "processor.go:"

func runProcessor(t *testing.T, c *Case, o RunOpts) *Result {
	var pl ProcPlan
	if err := json.Unmarshal(c.Plan, &pl); err != nil {
		return &Result{ToolErr: err.Error()}
	}
	if pl.DrainAfterWait && pl.Buffer < len(pl.Ops) {
		pl.DrainAfterWait = false // only meaningful when the buffer holds every result
	}
	return execSim(t, c, o, 4000+400*len(pl.Ops)*effectiveThreads(pl.Threads), false, func(sim *simrt.Sim) func() {
		var got []int
		consumerDone, waitReturned, closedSeen := false, false, false
		var p *concurrent.Processor
		sim.Client("main", func() {
			queue := make(chan concurrent.Operator, pl.Queue)
			if pl.PreClosed {
				queue = make(chan concurrent.Operator, maxInt(pl.Queue, len(pl.Ops)))
				for _, v := range pl.Ops {
					v := v
					sim.SendChan(queue, func() { queue <- procOp{v} })
				}
				sim.CloseChan(queue, func() { close(queue) })
			}
			p = concurrent.NewProcessor(queue, pl.Buffer, pl.Threads)
			if pl.DrainAfterWait {
				// single caller: submit, close, wait, then collect
				sim.Go("caller", func() {
					for _, v := range pl.Ops {
						p.Process(procOp{v})
					}
					p.Close()
					p.Wait()
					waitReturned = true
					for {
						v, err := p.Result()
						if v == nil && err == nil {
							break
						}
						if err != nil {
							var pe procErr
							if errors.As(err, &pe) && pe.n >= bothBase {
								if n, ok := v.(int); ok && n == pe.n {
									got = append(got, n)
								} else {
									sim.Fail("oracle", "processor-result", fmt.Sprintf("operation %d returned its value together with an error; the result is (%v, %v)", pe.n, v, err))
								}
							} else if errors.As(err, &pe) {
								got = append(got, -pe.n)
							}
						} else if n, ok := v.(int); ok {
							got = append(got, n)
						}
					}
					consumerDone = true
				})
				return
			}
			sim.Go("producer", func() {
				if pl.PreClosed {
					return
				}
				if pl.Batch > 1 {
					for i := 0; i < len(pl.Ops); i += pl.Batch {
						var batch []concurrent.Operator
						for _, v := range pl.Ops[i:minInt(i+pl.Batch, len(pl.Ops))] {
							batch = append(batch, procOp{v})
						}
						p.Process(batch...)
					}
				} else {
					for _, v := range pl.Ops {
						p.Process(procOp{v})
					}
				}
				if pl.CollectFirst {
					sim.Await("collected")
				}
				p.Close()
			})
			sim.Go("consumer", func() {
				for taken := 0; ; taken++ {
					if pl.CollectFirst && taken == len(pl.Ops) {
						sim.Signal("collected")
					}
					v, err := p.Result()
					if v == nil && err == nil {
						if pl.CollectFirst && taken < len(pl.Ops) {
							got = append(got, 0) // a (nil, nil) result (the queue is still open)
							continue
						}
						break // result channel closed
					}
					if err != nil {
						var pe procErr
						var pn int
						if errors.As(err, &pe) && pe.n >= bothBase {
							if n, ok := v.(int); ok && n == pe.n {
								got = append(got, n)
								sim.Probe("result_with_value_and_error")
							} else {
								sim.Fail("oracle", "processor-result", fmt.Sprintf("operation %d returned its value together with an error; the result is (%v, %v)", pe.n, v, err))
								got = append(got, 0)
							}
						} else if errors.As(err, &pe) && v == nil {
							got = append(got, -pe.n)
						} else if i := strings.Index(err.Error(), "panic: 70"); i >= 0 && v == nil {
							// the recovered integer payload of a panicking operation
							if _, e2 := fmt.Sscanf(err.Error()[i:], "panic: %d", &pn); e2 == nil && pn >= 7000000 {
								got = append(got, panicBase-(pn-7000000))
							} else {
								sim.Fail("oracle", "processor-result", fmt.Sprintf("unexpected result (%v, %v)", v, err))
								got = append(got, 0)
							}
						} else if i := strings.Index(err.Error(), "index out of range ["); i >= 0 && v == nil {
							// the recovered runtime error of an odd-numbered panicking operation
							if _, e2 := fmt.Sscanf(err.Error()[i:], "index out of range [%d]", &pn); e2 == nil {
								got = append(got, panicBase-pn)
							} else {
								sim.Fail("oracle", "processor-result", fmt.Sprintf("unexpected result (%v, %v)", v, err))
								got = append(got, 0)
							}
						} else if i := strings.Index(err.Error(), "operation "); i >= 0 && v == nil {
							if _, e2 := fmt.Sscanf(err.Error()[i:], "operation %d panics", &pn); e2 == nil {
								got = append(got, panicBase-pn) // the recovered panic of that operation
							} else {
								sim.Fail("oracle", "processor-result", fmt.Sprintf("unexpected result (%v, %v)", v, err))
								got = append(got, 0)
							}
						} else {
							sim.Fail("oracle", "processor-result", fmt.Sprintf("unexpected result (%v, %v)", v, err))
							got = append(got, 0)
						}
					} else if n, ok := v.(int); ok {
						got = append(got, n)
					} else {
						sim.Fail("oracle", "processor-result", fmt.Sprintf("unexpected result value %#v", v))
					}
				}
				consumerDone = true
			})
			if pl.Waiter {
				sim.Go("waiter", func() {
					p.Wait()
					waitReturned = true
					if p.Working() != 0 {
						sim.Fail("oracle", "processor-working", fmt.Sprintf("Working() = %d after Wait returned", p.Working()))
					}
				})
			}
		})
		return func() {
			if sim.Viol != nil {
				return
			}
			_ = closedSeen
			want := append([]int(nil), pl.Ops...)
			sort.Ints(want)
			sort.Ints(got)
			if !consumerDone {
				sim.Fail("oracle", "processor-consumer", "consumer never saw the result channel closed")
			}
			if fmt.Sprint(want) != fmt.Sprint(got) {
				sim.Fail("oracle", "processor-results", fmt.Sprintf("results %v != operation outcomes %v (each operation must yield exactly one result)", got, want))
			}
			if pl.Waiter && !waitReturned {
				sim.Fail("oracle", "processor-wait", "Wait did not return")
			}
			nw := 0
			for _, g := range sim.Goroutines() {
				if strings.HasPrefix(g.SpawnSite, procWorkerSite) {
					nw++
					if !g.Exited() {
						sim.Fail("oracle", "processor-worker-exit", fmt.Sprintf("worker g%d did not exit after the queue was closed: %s", g.ID, g.StateString()))
					}
				}
			}
			if want := effectiveThreads(pl.Threads); nw != want {
				sim.Fail("oracle", "processor-workers", fmt.Sprintf("%d worker goroutines for threads=%d (GOMAXPROCS %d)", nw, pl.Threads, runtime.GOMAXPROCS(0)))
			}
		}
	})
}

func genProcessor(r *simrt.RNG) *Case {
	pl := ProcPlan{Threads: r.Range(1, 4), Buffer: r.Intn(4), Queue: r.Intn(3), Waiter: r.Intn(4) != 0}
	if rare(r, 10) {
		pl.Threads = r.Range(5, 8) // GOMAXPROCS is pinned to 8
		pl.Buffer = r.Pick(0, 1, 8, 16)
	}
	if r.Intn(15) == 0 {
		pl.Threads = r.Pick(0, -1, 9, 100) // documented to mean GOMAXPROCS
	}
	T := effectiveThreads(pl.Threads)
	n := r.Pick(0, 1, maxInt(T-1, 0), T, T+1, 2*T+1, r.Intn(8))
	if rare(r, 12) {
		n = r.Range(10, 24)
		if currentTier == "thorough" && r.Bool() {
			n = r.Range(25, 60)
		}
	}
	if n > 0 && r.Intn(8) == 0 {
		// submit everything, close, wait, collect: needs a result buffer that
		// holds all results and a queue that holds all operations or workers
		// that keep draining it (they do: results never block)
		pl.Buffer = n + r.Intn(3)
		pl.DrainAfterWait = true
		pl.Waiter = true
		for i := 0; i < n; i++ {
			v := i + 1
			if r.Intn(4) == 0 {
				v = -v
				if r.Intn(3) == 0 {
					v = bothBase + i + 1 // fails, and hands back a value as well
				}
			}
			pl.Ops = append(pl.Ops, v)
		}
		b, _ := json.Marshal(pl)
		return &Case{Prop: "C19", Kind: "processor", Plan: b,
			Sched: PickStrategy(r, 40+20*n, []string{procWorkerSite, "client:"}, nil)}
	}
	pl.CollectFirst = r.Intn(3) == 0
	if !pl.CollectFirst && r.Intn(6) == 0 {
		pl.PreClosed = true
	}
	if r.Intn(4) == 0 {
		pl.Batch = r.Range(2, 5)
	}
	for i := 0; i < n; i++ {
		v := i + 1
		if r.Intn(4) == 0 {
			v = -v
		}
		if pl.CollectFirst && r.Intn(4) == 0 {
			v = 0 // an operation whose value and error are both nil
		}
		if v < 0 && r.Intn(3) == 0 {
			v = bothBase + i + 1 // fails, and hands back a value as well
		}
		pl.Ops = append(pl.Ops, v)
	}
	if T >= 2 && n > 0 && r.Intn(6) == 0 {
		// a panicking operation is recovered into an error Result and ends
		// its worker: keep fewer of them than workers
		for k := r.Range(1, minInt(T-1, 2)); k > 0; k-- {
			i := r.Intn(n)
			if r.Bool() {
				i = n - 1 // the last operation: its worker may be the last to exit
			}
			pl.Ops[i] = panicBase - (i + 1)
		}
	}
	b, _ := json.Marshal(pl)
	return &Case{Prop: "C19", Kind: "processor", Plan: b,
		Sched: PickStrategy(r, 40+20*n, []string{procWorkerSite, "client:"}, nil)}
}

func shrinkProcessor(c *Case) []*Case {
	var pl ProcPlan
	json.Unmarshal(c.Plan, &pl)
	var out []*Case
	add := func(q ProcPlan) {
		b, _ := json.Marshal(q)
		x := *c
		x.Plan = b
		out = append(out, &x)
	}
	for i := range pl.Ops {
		q := pl
		q.Ops = append(append([]int(nil), pl.Ops[:i]...), pl.Ops[i+1:]...)
		add(q)
	}
	if pl.Threads > 1 && pl.Threads <= 8 {
		q := pl
		q.Threads--
		add(q)
	}
	if pl.Batch > 1 {
		q := pl
		q.Batch = 0
		add(q)
	}
	if pl.PreClosed {
		q := pl
		q.PreClosed = false
		add(q)
	}
	if pl.Buffer > 0 && !(pl.DrainAfterWait && pl.Buffer <= len(pl.Ops)) {
		q := pl
		q.Buffer--
		add(q)
	}
	if pl.Queue > 0 {
		q := pl
		q.Queue--
		add(q)
	}
	if pl.Waiter {
		q := pl
		q.Waiter = false
		add(q)
	}
	for i, v := range pl.Ops {
		if v < 0 && v > panicBase {
			q := pl
			q.Ops = append([]int(nil), pl.Ops...)
			q.Ops[i] = -v
			add(q)
		}
	}
	return out
}

// ---------------------------------------------------------------------------
// C19 — Map

type MapPlan struct {
	Len      int `json:"len"`
	Threads  int `json:"threads"`
	MaxChunk int `json:"max_chunk"`
	// FailAt > 0: the chunk containing position FailAt-1 returns an error.
	// Map must then still return (with whatever error it likes) without
	// panic, race or deadlock of the caller.
	FailAt int `json:"fail_at,omitempty"`
	// FailWithValue: the failing chunk returns a (partial) value together
	// with its error, as an Operator is free to do: it has failed all the same.
	FailWithValue bool `json:"fail_with_value,omitempty"`
	// NilAt > 0: the chunk containing position NilAt-1 returns (nil, nil):
	// still one result for that chunk.
	NilAt int `json:"nil_at,omitempty"`
	// ViaPromise: the same through PromiseMap: the promise is fulfilled with
	// Map's results, or failed with Map's error.
	ViaPromise bool `json:"via_promise,omitempty"`
}

type span struct{ lo, hi int }

type recMapper struct {
	lo, hi int
	slices *[]span
	failAt int
	nilAt  int
	failV  bool
}

func (m *recMapper) Operation() (interface{}, error) {
	if m.failAt > 0 && m.lo <= m.failAt-1 && m.failAt-1 < m.hi {
		if m.failV {
			return span{m.lo, m.hi}, procErr{m.failAt}
		}
		return nil, procErr{m.failAt}
	}
	if m.nilAt > 0 && m.lo <= m.nilAt-1 && m.nilAt-1 < m.hi {
		return nil, nil
	}
	return span{m.lo, m.hi}, nil
}
func (m *recMapper) Slice(i, j int) concurrent.Mapper {
	*m.slices = append(*m.slices, span{m.lo + i, m.lo + j})
	return &recMapper{lo: m.lo + i, hi: m.lo + j, slices: m.slices, failAt: m.failAt, nilAt: m.nilAt, failV: m.failV}
}
func (m *recMapper) Len() int { return m.hi - m.lo }

func runMap(t *testing.T, c *Case, o RunOpts) *Result {
	var pl MapPlan
	if err := json.Unmarshal(c.Plan, &pl); err != nil {
		return &Result{ToolErr: err.Error()}
	}
	return execSim(t, c, o, 6000+400*pl.Len, false, func(sim *simrt.Sim) func() {
		var slices []span
		var results []interface{}
		var err error
		returned := false
		sim.Client("mapper", func() {
			set := &recMapper{lo: 0, hi: pl.Len, slices: &slices, failAt: pl.FailAt, nilAt: pl.NilAt, failV: pl.FailWithValue}
			if pl.ViaPromise {
				r := <-concurrent.PromiseMap(set, pl.Threads, pl.MaxChunk).Wait()
				results, _ = r.Value.([]interface{})
				err = r.Err
			} else {
				results, err = concurrent.Map(set, pl.Threads, pl.MaxChunk)
			}
			returned = true
		})
		return func() {
			if sim.Viol != nil {
				return
			}
			if !returned {
				sim.Fail("oracle", "map-return", "Map did not return")
				return
			}
			if pl.FailAt > 0 && pl.FailAt <= pl.Len {
				sim.Probe("map_with_failing_chunk")
				if pl.ViaPromise && err == nil {
					sim.Fail("oracle", "promisemap-error", "a chunk failed, Map reports an error, and the promise made of it was settled without one")
				}
				if !pl.ViaPromise && err == nil {
					// the chunk's operation returned an error: a Map that reports
					// success has dropped it (one result per chunk "carrying that
					// operation's value or error")
					sim.Fail("oracle", "map-error-hidden", fmt.Sprintf("a chunk's operation failed and Map returned %d results and no error", len(results)))
				}
				if pl.FailWithValue {
					sim.Probe("map_failing_chunk_with_value")
				}
				return // otherwise only: Map returned, nothing panicked, raced or deadlocked
			}
			if err != nil {
				sim.Fail("oracle", "map-error", fmt.Sprintf("Map failed although no operation fails: %v", err))
				return
			}
			// chunks handed out must partition [0,Len)
			sl := append([]span(nil), slices...)
			sort.Slice(sl, func(i, j int) bool { return sl[i].lo < sl[j].lo })
			pos := 0
			for _, s := range sl {
				if s.lo != pos || s.hi <= s.lo {
					sim.Fail("oracle", "map-partition", fmt.Sprintf("chunks %v do not partition [0,%d)", sl, pl.Len))
					return
				}
				pos = s.hi
			}
			if pos != pl.Len {
				sim.Fail("oracle", "map-partition", fmt.Sprintf("chunks %v do not cover [0,%d)", sl, pl.Len))
				return
			}
			// exactly one result per chunk
			var rs []span
			for _, r := range results {
				s, ok := r.(span)
				if r == nil && pl.NilAt > 0 {
					// the (nil, nil) chunk's result: stands for the chunk holding NilAt-1
					for _, c := range sl {
						if c.lo <= pl.NilAt-1 && pl.NilAt-1 < c.hi {
							s, ok = c, true
						}
					}
				}
				if !ok {
					sim.Fail("oracle", "map-results", fmt.Sprintf("unexpected result %#v", r))
					return
				}
				rs = append(rs, s)
			}
			sort.Slice(rs, func(i, j int) bool { return rs[i].lo < rs[j].lo })
			if fmt.Sprint(rs) != fmt.Sprint(sl) {
				sim.Fail("oracle", "map-results", fmt.Sprintf("results %v != chunks %v (one result per chunk)", rs, sl))
			}
			for _, g := range sim.Stuck() {
				if !g.Client {
					sim.Probe("map_goroutine_left_blocked")
				}
			}
		}
	})
}

func genMap(r *simrt.RNG) *Case {
	pl := MapPlan{Len: r.Intn(13), Threads: r.Range(1, 4), MaxChunk: r.Range(1, 5)}
	if rare(r, 10) {
		pl.Len, pl.Threads = r.Range(13, 40), r.Range(1, 8)
	}
	if r.Intn(15) == 0 {
		pl.Threads = r.Pick(9, 12, 40) // more than GOMAXPROCS: clamped for the workers, not for the chunk size
	}
	if r.Intn(40) == 0 {
		// "any number of worker threads": the far end of int
		pl.Threads = r.Pick(math.MaxInt, math.MaxInt-1, math.MaxInt-pl.Len, math.MaxInt32, math.MaxInt32+1, 1<<40)
	}
	if r.Intn(5) == 0 {
		pl.MaxChunk = r.Range(1, 20)
	}
	if pl.Len > 0 && r.Intn(5) == 0 {
		pl.FailAt = 1 + r.Intn(pl.Len)
		pl.FailWithValue = r.Intn(3) == 0
	} else if pl.Len > 0 && r.Intn(6) == 0 {
		pl.NilAt = 1 + r.Intn(pl.Len)
	}
	pl.ViaPromise = r.Intn(5) == 0
	b, _ := json.Marshal(pl)
	return &Case{Prop: "C19", Kind: "map", Plan: b, Sched: PickStrategy(r, 120, []string{procWorkerSite, "map.go:"}, nil)}
}

func shrinkMap(c *Case) []*Case {
	var pl MapPlan
	json.Unmarshal(c.Plan, &pl)
	var out []*Case
	add := func(q MapPlan) {
		b, _ := json.Marshal(q)
		x := *c
		x.Plan = b
		out = append(out, &x)
	}
	if pl.Len > 0 {
		q := pl
		q.Len--
		add(q)
	}
	if pl.Threads > 1 {
		q := pl
		q.Threads--
		add(q)
	}
	if pl.MaxChunk < pl.Len {
		q := pl
		q.MaxChunk++
		add(q)
	}
	if pl.ViaPromise {
		q := pl
		q.ViaPromise = false
		add(q)
	}
	return out
}

// ---------------------------------------------------------------------------
// C19 — Promise (concurrent histories, linearizability)

type PromOp struct {
	Op  string `json:"op"` // fulfill | fail | wait
	Arg int    `json:"arg,omitempty"`
}

type PromPlan struct {
	Recoverable bool       `json:"recoverable"`
	Clients     [][]PromOp `json:"clients"`
}

type promIn struct {
	op  string
	arg int
}

type promOut struct {
	ok  bool // fulfill: err == nil; fail: returned true
	val int  // wait: value (0 = nil)
	err int  // wait: error id (0 = nil)
}

type promState struct {
	set bool
	val int
	err int
}

type promErr struct{ n int }

func (e promErr) Error() string { return fmt.Sprintf("failure %d", e.n) }

var promModel = porcupine.Model{
	Init: func() interface{} { return promState{} },
	Step: func(state, input, output interface{}) (bool, interface{}) {
		st := state.(promState)
		in := input.(promIn)
		out := output.(promOut)
		switch in.op {
		case "fulfill":
			if !st.set {
				return out.ok, promState{set: true, val: in.arg}
			}
			return !out.ok, st
		case "fail":
			if !st.set {
				return out.ok, promState{set: true, err: in.arg}
			}
			return !out.ok, st
		case "failv": // Fail that also carries a value
			if !st.set {
				return out.ok, promState{set: true, val: 1000 + in.arg, err: in.arg}
			}
			return !out.ok, st
		case "wait":
			return st.set && out.val == st.val && out.err == st.err, st
		}
		return false, st
	},
	Equal: func(a, b interface{}) bool { return a.(promState) == b.(promState) },
	DescribeOperation: func(input, output interface{}) string {
		return fmt.Sprintf("%v -> %v", input, output)
	},
}

func runPromise(t *testing.T, c *Case, o RunOpts) *Result {
	var pl PromPlan
	if err := json.Unmarshal(c.Plan, &pl); err != nil {
		return &Result{ToolErr: err.Error()}
	}
	nops := 0
	for _, cl := range pl.Clients {
		nops += len(cl)
	}
	return execSim(t, c, o, 3000+300*nops, false, func(sim *simrt.Sim) func() {
		var hist []porcupine.Operation
		var p *concurrent.Promise
		sim.Client("main", func() {
			p = concurrent.NewPromise(false, pl.Recoverable, false)
			for ci, ops := range pl.Clients {
				ci, ops := ci, ops
				sim.Go(fmt.Sprintf("c%d", ci), func() {
					for _, op := range ops {
						in := promIn{op.Op, op.Arg}
						var out promOut
						call := sim.Invoke(op.Op)
						switch op.Op {
						case "fulfill":
							if op.Arg == 0 {
								out.ok = p.Fulfill(nil) == nil // a nil value is a value
							} else {
								out.ok = p.Fulfill(op.Arg) == nil
							}
						case "fail":
							out.ok = p.Fail(nil, promErr{op.Arg})
						case "failv":
							out.ok = p.Fail(1000+op.Arg, promErr{op.Arg})
						case "wait":
							r := <-p.Wait()
							if v, ok := r.Value.(int); ok {
								out.val = v
							} else if r.Value != nil {
								out.val = -1
							}
							if r.Err != nil {
								var pe promErr
								if errors.As(r.Err, &pe) {
									out.err = pe.n
								} else {
									out.err = -1
								}
							}
						}
						ret := sim.Return(op.Op)
						hist = append(hist, porcupine.Operation{ClientId: ci, Input: in, Call: int64(call), Output: out, Return: int64(ret)})
					}
				})
			}
		})
		return func() {
			if sim.Viol != nil {
				return
			}
			if len(hist) != nops {
				sim.Fail("oracle", "promise-history", fmt.Sprintf("%d of %d operations returned", len(hist), nops))
				return
			}
			res := porcupine.CheckOperationsTimeout(promModel, hist, 20*time.Second)
			switch res {
			case porcupine.Illegal:
				sim.Fail("linearizability", "promise", "history is not linearizable against the settle-once model: "+describeHist(hist))
			case porcupine.Unknown:
				sim.ToolErr = "porcupine timed out on a promise history"
			}
		}
	})
}

func describeHist(h []porcupine.Operation) string {
	hs := append([]porcupine.Operation(nil), h...)
	sort.Slice(hs, func(i, j int) bool { return hs[i].Call < hs[j].Call })
	var sb strings.Builder
	for _, o := range hs {
		fmt.Fprintf(&sb, "[c%d %v@%d -> %+v@%d] ", o.ClientId, o.Input, o.Call, o.Output, o.Return)
	}
	return sb.String()
}

func genPromise(r *simrt.RNG) *Case {
	pl := PromPlan{Recoverable: r.Bool()}
	nc := r.Range(2, 4)
	maxOps := 2
	if r.Intn(8) == 0 {
		nc, maxOps = r.Range(3, 5), 3
	}
	arg := 0
	setter := false
	for i := 0; i < nc; i++ {
		var ops []PromOp
		for k := r.Range(1, maxOps); k > 0; k-- {
			arg++
			switch x := r.Intn(10); {
			case x < 4:
				v := arg
				if r.Intn(6) == 0 {
					v = 0 // Fulfill(nil)
				}
				ops = append(ops, PromOp{"fulfill", v})
				setter = true
			case x < 6:
				ops = append(ops, PromOp{[]string{"fail", "failv"}[r.Intn(2)], arg})
				setter = true
			default:
				ops = append(ops, PromOp{Op: "wait"})
			}
		}
		pl.Clients = append(pl.Clients, ops)
	}
	_ = setter
	if !promLive(pl) {
		// every Wait must be releasable: some setter has to be reachable
		// without first passing a Wait of its own client
		arg++
		i := r.Intn(len(pl.Clients))
		pl.Clients[i] = append([]PromOp{{"fulfill", arg}}, pl.Clients[i]...)
	}
	b, _ := json.Marshal(pl)
	return &Case{Prop: "C19", Kind: "promise", Plan: b, Sched: PickStrategy(r, 80, []string{"client:c0", "client:c1"}, nil)}
}

// promLive reports whether the workload cannot block by design: some client
// reaches a setter without first passing one of its own Waits.
func promLive(pl PromPlan) bool {
	for _, cl := range pl.Clients {
		for _, op := range cl {
			if op.Op == "wait" {
				break
			}
			return true
		}
	}
	return false
}

func shrinkPromise(c *Case) []*Case {
	var pl PromPlan
	json.Unmarshal(c.Plan, &pl)
	var out []*Case
	add := func(q PromPlan) {
		if !promLive(q) {
			return
		}
		b, _ := json.Marshal(q)
		x := *c
		x.Plan = b
		out = append(out, &x)
	}
	for i := range pl.Clients {
		for j := range pl.Clients[i] {
			q := PromPlan{Recoverable: pl.Recoverable}
			for a := range pl.Clients {
				var ops []PromOp
				for b := range pl.Clients[a] {
					if a == i && b == j {
						continue
					}
					ops = append(ops, pl.Clients[a][b])
				}
				if len(ops) > 0 {
					q.Clients = append(q.Clients, ops)
				}
			}
			add(q)
		}
	}
	if pl.Recoverable {
		q := pl
		q.Recoverable = false
		add(q)
	}
	return out
}

// ---------------------------------------------------------------------------
// C19 — sequential promise laws over flag combinations (the one-client
// special case of the same run)

type PromSeqPlan struct {
	Recoverable bool     `json:"recoverable"`
	Relay       bool     `json:"relay"`
	Ops         []PromOp `json:"ops"`
}

func runPromiseSeq(t *testing.T, c *Case, o RunOpts) *Result {
	var pl PromSeqPlan
	if err := json.Unmarshal(c.Plan, &pl); err != nil {
		return &Result{ToolErr: err.Error()}
	}
	return execSim(t, c, o, 2000+200*len(pl.Ops), false, func(sim *simrt.Sim) func() {
		sim.Client("seq", func() {
			p := concurrent.NewPromise(false, pl.Recoverable, pl.Relay)
			set, val, failed := false, 0, 0
			for i, op := range pl.Ops {
				switch op.Op {
				case "fulfill":
					err := p.Fulfill(op.Arg)
					if !set {
						if err != nil {
							sim.Fail("oracle", "promise-seq-first-fulfill", fmt.Sprintf("op %d: first Fulfill returned %v", i, err))
						}
						set, val = true, op.Arg
					} else if err == nil {
						sim.Fail("oracle", "promise-seq-second-fulfill", fmt.Sprintf("op %d: Fulfill on a settled immutable promise returned nil", i))
					}
				case "fail", "failv":
					var fv interface{}
					if op.Op == "failv" {
						fv = 1000 + op.Arg // a rejected Fail must not touch the value either
					}
					ok := p.Fail(fv, promErr{op.Arg})
					if !set {
						if !ok {
							sim.Fail("oracle", "promise-seq-fail", fmt.Sprintf("op %d: Fail on an unset promise returned false", i))
						}
						set, failed = true, op.Arg
					} else if ok {
						sim.Fail("oracle", "promise-seq-fail", fmt.Sprintf("op %d: Fail on a settled promise returned true", i))
					}
				case "wait":
					if !set {
						continue // would block by design
					}
					r := <-p.Wait()
					if failed != 0 {
						var pe promErr
						if !errors.As(r.Err, &pe) || pe.n != failed {
							sim.Fail("oracle", "promise-seq-wait", fmt.Sprintf("op %d: Wait on a failed promise returned %+v, want failure %d", i, r, failed))
						}
					} else if v, ok := r.Value.(int); !ok || v != val {
						sim.Fail("oracle", "promise-seq-wait", fmt.Sprintf("op %d: Wait returned %+v, want value %d", i, r, val))
					} else if r.Err != nil && !pl.Relay {
						sim.Fail("oracle", "promise-seq-wait", fmt.Sprintf("op %d: Wait returned error %v on a fulfilled non-relaying promise", i, r.Err))
					}
				}
			}
		})
		return nil
	})
}

func genPromiseSeq(r *simrt.RNG) *Case {
	pl := PromSeqPlan{Recoverable: r.Bool(), Relay: r.Bool()}
	for i, n := 0, r.Range(1, 6); i < n; i++ {
		switch x := r.Intn(10); {
		case x < 4:
			pl.Ops = append(pl.Ops, PromOp{"fulfill", i + 1})
		case x < 6:
			pl.Ops = append(pl.Ops, PromOp{[]string{"fail", "failv"}[r.Intn(2)], i + 1})
		default:
			pl.Ops = append(pl.Ops, PromOp{Op: "wait"})
		}
	}
	b, _ := json.Marshal(pl)
	return &Case{Prop: "C19", Kind: "promise-seq", Plan: b, Sched: Sched{Strategy: "rtc"}}
}

func maxInt(a, b int) int {
	if a > b {
		return a
	}
	return b
}

func init() {
	register(&Property{
		ID: "C19",
		Explore: func(t *testing.T, w *Worker, r *simrt.RNG) {
			var c *Case
			switch k := r.Intn(20); {
			case k < 8:
				c = genProcessor(r)
			case k < 12:
				c = genMap(r)
			case k < 19:
				c = genPromise(r)
			default:
				c = genPromiseSeq(r)
			}
			w.Report(c, runC19(t, c, RunOpts{}))
		},
		Run: runC19,
		Shrink: func(c *Case) []*Case {
			switch c.Kind {
			case "processor":
				return shrinkProcessor(c)
			case "map":
				return shrinkMap(c)
			case "promise":
				return shrinkPromise(c)
			}
			return nil
		},
	})
}

func runC19(t *testing.T, c *Case, o RunOpts) *Result {
	noteCase(c)
	defer progress.Add(1)
	switch c.Kind {
	case "processor":
		return runProcessor(t, c, o)
	case "map":
		return runMap(t, c, o)
	case "promise":
		return runPromise(t, c, o)
	case "promise-seq":
		return runPromiseSeq(t, c, o)
	}
	return &Result{ToolErr: "unknown case kind " + c.Kind}
}
