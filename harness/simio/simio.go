// Package simio simulates the two ends of a byte stream: the medium a biogo
// writer emits into (Sink) and the medium a biogo reader pulls from (Source),
// with a seeded delivery schedule, truncation, sticky I/O errors and a step
// budget that decides "never blocks" without wall-clock timeouts.
package simio

import (
	"errors"
	"fmt"
	"io"

	"verif/harness/simrt"
)

// Sink is an append-only byte ledger. What the writer *actually* emitted is
// measured here, not believed from the n it returns.
type Sink struct {
	Buf    []byte
	NCalls int // Write calls so far
	// OnWrite, if set, is called at the start of every Write, before the
	// bytes are consumed: the simulator's yield point of the medium (another
	// writer may run while this call is "in flight").
	OnWrite func()
	// RejectCall > 0: that Write call (1-based) is refused once, with nothing
	// accepted and a temporary error; the medium works again afterwards.
	RejectCall int
	Rejected   bool
	// FailAt >= 0: the medium fails once this many bytes have been accepted
	// (disk full, peer gone): the call that crosses the limit is a short
	// write with an error, every later call accepts nothing. The zero value
	// of Sink never fails (FailAt is only honoured when Faulty is set).
	Faulty bool
	FailAt int
	Failed bool
	// FailFull: the call that crosses the limit is accepted whole and still
	// reports the error (n == len(p), err != nil: allowed by io.Writer).
	FailFull bool
}

// ErrTemporary is the error of a refused call.
var ErrTemporary = errors.New("simio: temporary failure, nothing written")

func (s *Sink) Write(p []byte) (int, error) {
	s.NCalls++
	simrt.Heartbeat.Add(1)
	if s.OnWrite != nil {
		s.OnWrite()
	}
	if s.RejectCall > 0 && s.NCalls == s.RejectCall {
		s.Rejected = true
		return 0, ErrTemporary
	}
	if s.Faulty {
		room := s.FailAt - len(s.Buf)
		if room < 0 {
			room = 0
		}
		if !s.Failed && s.FailFull && len(p) > room {
			s.Failed = true
			s.Buf = append(s.Buf, p...)
			return len(p), ErrInjected
		}
		if s.Failed || len(p) > room {
			s.Failed = true
			if room > len(p) {
				room = len(p)
			}
			s.Buf = append(s.Buf, p[:room]...)
			return room, ErrInjected
		}
	}
	s.Buf = append(s.Buf, p...)
	return len(p), nil
}

// WriteByte makes the Sink an io.ByteWriter as well (bufio.Writer and
// bytes.Buffer are): a one-byte Write. Wrap the Sink in Plain to hide it.
func (s *Sink) WriteByte(c byte) error {
	_, err := s.Write([]byte{c})
	return err
}

// Plain offers nothing but Write.
type Plain struct{ W io.Writer }

func (p Plain) Write(b []byte) (int, error) { return p.W.Write(b) }

// Delivery describes how a Source hands out its bytes. It is part of a replay
// file: (Profile, Seed, flags) fully determine the schedule.
type Delivery struct {
	Profile     string `json:"profile"` // all | one | uniform | geom | block | mixed
	Seed        uint64 `json:"seed"`
	EOFWithData bool   `json:"eof_with_data,omitempty"` // last bytes and io.EOF in one call
	ZeroReads   bool   `json:"zero_reads,omitempty"`    // occasional legal (0, nil)
	// TruncateAt >= 0: the producer died after this many bytes (clean EOF).
	TruncateAt int `json:"truncate_at"`
	// ErrorAt >= 0: a sticky non-EOF error after this many bytes.
	ErrorAt       int  `json:"error_at"`
	ErrorWithData bool `json:"error_with_data,omitempty"`
	// TempErrorAfter > 0: once, after this many bytes have been delivered, one
	// Read call fails with a temporary error (nothing delivered); the stream
	// works again afterwards.
	TempErrorAfter int `json:"temp_error_after,omitempty"`
}

// TemporaryError is a transient failure of one Read call (it says so the way
// net.Error does).
type TemporaryError struct{}

func (TemporaryError) Error() string   { return "simio: temporary read failure, nothing delivered" }
func (TemporaryError) Temporary() bool { return true }
func (TemporaryError) Timeout() bool   { return true }

// NoFault returns a delivery without truncation or error.
func NoFault(profile string, seed uint64) Delivery {
	return Delivery{Profile: profile, Seed: seed, TruncateAt: -1, ErrorAt: -1}
}

// ErrInjected is the sticky stream error.
var ErrInjected = errors.New("simio: injected stream failure")

// BudgetExceeded is the panic value raised when a reader keeps polling a dead
// stream: the deterministic stand-in for "blocks forever".
//
// It deliberately does not implement error: the BED and GFF readers recover
// panics whose value is an error and return them as ordinary errors, which
// would turn a spinning reader into one that "reported an error". The Source
// also latches Spun, which the harness checks after every call.
type BudgetExceeded struct{ Polls int }

func (b BudgetExceeded) String() string {
	return fmt.Sprintf("simio: reader polled an exhausted stream %d more times (spinning)", b.Polls)
}

// Profiles lists the delivery profiles.
var Profiles = []string{"all", "one", "uniform", "geom", "block", "mixed"}

// Source is an io.Reader over a byte string under a delivery schedule.
type Source struct {
	data      []byte
	pos       int
	d         Delivery
	r         *simrt.RNG
	ended     error // sticky terminal condition once delivered
	zeros     int
	TempFired bool // the one-shot temporary error has been delivered

	OnRead     func() // yield point of the medium, called at the start of every Read
	Reads      int    // Read calls (the logical step count)
	PollsAfter int    // calls after the terminal condition was delivered
	Budget     int
	MaxPolls   int  // high-water mark of PollsAfter within one client call
	Spun       bool // the budget was exceeded at least once
}

func NewSource(data []byte, d Delivery) *Source {
	end := len(data)
	if d.TruncateAt >= 0 && d.TruncateAt < end {
		end = d.TruncateAt
	}
	if d.ErrorAt >= 0 && d.ErrorAt < end {
		end = d.ErrorAt
	}
	return &Source{data: data[:end], d: d, r: simrt.NewRNG(d.Seed), Budget: 300}
}

// ResetPolls is called by the harness between client calls: the budget
// applies to a single Read call of the reader under test.
func (s *Source) ResetPolls() { s.PollsAfter = 0 }

func (s *Source) terminal() error {
	if s.d.ErrorAt >= 0 && (s.d.TruncateAt < 0 || s.d.ErrorAt <= s.d.TruncateAt) {
		return ErrInjected
	}
	return io.EOF
}

func (s *Source) chunk(max int) int {
	rem := len(s.data) - s.pos
	n := rem
	switch s.d.Profile {
	case "one":
		n = 1
	case "uniform":
		n = 1 + s.r.Intn(64)
	case "geom":
		n = 1
		for n < 1<<14 && s.r.Intn(3) != 0 {
			n *= 2
		}
		n = 1 + s.r.Intn(n)
	case "block":
		n = s.r.Pick(4095, 4096, 4097, 1, 2, 8191, 8192)
	case "mixed":
		switch s.r.Intn(4) {
		case 0:
			n = 1
		case 1:
			n = 1 + s.r.Intn(16)
		case 2:
			n = s.r.Pick(4095, 4096, 4097)
		}
	}
	if n > rem {
		n = rem
	}
	if n > max {
		n = max
	}
	return n
}

func (s *Source) Read(p []byte) (int, error) {
	s.Reads++
	simrt.Heartbeat.Add(1)
	if s.OnRead != nil {
		s.OnRead()
	}
	if s.ended != nil {
		s.PollsAfter++
		if s.PollsAfter > s.MaxPolls {
			s.MaxPolls = s.PollsAfter
		}
		if s.PollsAfter > s.Budget {
			s.Spun = true
			panic(BudgetExceeded{s.PollsAfter})
		}
		return 0, s.ended
	}
	if len(p) == 0 {
		return 0, nil
	}
	if s.d.TempErrorAfter > 0 && !s.TempFired && s.pos >= s.d.TempErrorAfter {
		s.TempFired = true
		return 0, TemporaryError{}
	}
	if s.d.ZeroReads && s.zeros < 3 && s.r.Intn(8) == 0 {
		s.zeros++
		return 0, nil
	}
	s.zeros = 0
	if s.pos >= len(s.data) {
		s.ended = s.terminal()
		return 0, s.ended
	}
	n := s.chunk(len(p))
	if s.d.TempErrorAfter > 0 && !s.TempFired && s.pos < s.d.TempErrorAfter && s.pos+n > s.d.TempErrorAfter {
		n = s.d.TempErrorAfter - s.pos
	}
	copy(p, s.data[s.pos:s.pos+n])
	s.pos += n
	if s.pos >= len(s.data) {
		term := s.terminal()
		if (term == io.EOF && s.d.EOFWithData) || (term != io.EOF && s.d.ErrorWithData) {
			s.ended = term
			return n, term
		}
	}
	return n, nil
}

// PickDelivery draws a fault-free delivery schedule.
func PickDelivery(r *simrt.RNG) Delivery {
	d := NoFault(Profiles[r.Intn(len(Profiles))], r.Uint64())
	d.EOFWithData = r.Bool()
	d.ZeroReads = r.Intn(4) == 0
	return d
}
