package props

import (
	"fmt"
	"os"
	"sort"
	"testing"

	"github.com/biogo/biogo/alphabet"
	"github.com/biogo/biogo/concurrent"
	"github.com/biogo/biogo/feat"
	"github.com/biogo/biogo/io/featio"
	"github.com/biogo/biogo/io/featio/bed"
	"github.com/biogo/biogo/io/featio/gff"
	"github.com/biogo/biogo/io/seqio"
	"github.com/biogo/biogo/io/seqio/fasta"
	"github.com/biogo/biogo/io/seqio/fastq"
	"github.com/biogo/biogo/morass"
	"github.com/biogo/biogo/seq"
	"github.com/biogo/biogo/seq/linear"

	"verif/harness/simrt"
)

func init() {
	// install the simulator into the woven packages
	concurrent.VerifRT = simrt.Global
	morass.VerifRT = simrt.Global
	fasta.VerifRT = simrt.Global
	fastq.VerifRT = simrt.Global
	bed.VerifRT = simrt.Global
	gff.VerifRT = simrt.Global
	seqio.VerifRT = simrt.Global
	featio.VerifRT = simrt.Global
	seq.VerifRT = simrt.Global
	linear.VerifRT = simrt.Global
	alphabet.VerifRT = simrt.Global
	feat.VerifRT = simrt.Global
	for _, f := range []*bool{&concurrent.VerifOn, &morass.VerifOn, &fasta.VerifOn, &fastq.VerifOn, &bed.VerifOn, &gff.VerifOn,
		&seqio.VerifOn, &featio.VerifOn, &seq.VerifOn, &linear.VerifOn, &alphabet.VerifOn, &feat.VerifOn} {
		simrt.RegisterFlag(f)
	}
}

// execSim runs one case under the simulator. setup registers the clients and
// returns the post-run oracle, which may call sim.Fail.
func execSim(t *testing.T, c *Case, o RunOpts, maxSteps int, noHB bool, setup func(sim *simrt.Sim) func()) *Result {
	sim := simrt.New(simrt.Config{
		Chooser:  MakeChooser(c.Sched),
		MaxSteps: maxSteps,
		Faults:   c.Faults,
		// the failures the statement lists: creation, write, sync, seek, read
		// (whatever call performs them), never close/remove
		FaultAll: true,
		KeepLog:  o.KeepLog,
		Record:   true,
		Expect:   o.Expect,
		NoHB:     noHB,
	})
	post := setup(sim)
	sim.Run(t)
	if post != nil && sim.ToolErr == "" {
		post()
	}
	res := &Result{
		Viol:    sim.Viol,
		ToolErr: sim.ToolErr,
		Steps:   sim.Steps(),
		Choices: sim.Choices,
		Enabled: sim.Enabled,
		Hash:    sim.EventHash(),
		Probes:  sim.Probes,
		IOLog:   sim.IOLog,
		Fired:   sim.Fired,
		Log:     sim.Log,
	}
	for k := range sim.Races {
		res.Races = append(res.Races, k)
	}
	sort.Strings(res.Races)
	return res
}

var scratchRoot string

// scratchDir returns a fresh directory for one run's files.
func scratchDir() string {
	if scratchRoot == "" {
		base := os.Getenv("VERIF_TMP")
		if base == "" {
			base = "/dev/shm"
			if _, err := os.Stat(base); err != nil {
				base = os.TempDir()
			}
		}
		scratchRoot = fmt.Sprintf("%s/verif-%d", base, os.Getpid())
		os.MkdirAll(scratchRoot, 0o755)
	}
	d, err := os.MkdirTemp(scratchRoot, "run")
	if err != nil {
		panic(err)
	}
	return d
}

func cleanupScratch() {
	if scratchRoot != "" {
		os.RemoveAll(scratchRoot)
	}
}
