package simrt

import (
	"fmt"
	"sort"
)

// VC is a vector clock indexed by logical goroutine id.
type VC []uint32

func (v VC) copy() VC {
	c := make(VC, len(v))
	copy(c, v)
	return c
}

func (v *VC) tick(id int) {
	for len(*v) <= id {
		*v = append(*v, 0)
	}
	(*v)[id]++
}

func (v *VC) join(o VC) {
	for len(*v) < len(o) {
		*v = append(*v, 0)
	}
	for i, x := range o {
		if x > (*v)[i] {
			(*v)[i] = x
		}
	}
}

func (v VC) at(id int) uint32 {
	if id < len(v) {
		return v[id]
	}
	return 0
}

type access struct {
	g    int
	clk  uint32
	site string
}

type shadowWord struct {
	name  string
	write *access
	reads map[int]access
}

// access is the happens-before monitor: called (under s.mu) for every woven
// shared-field access.
func (s *Sim) access(g *G, key uintptr, keep interface{}, name string, write bool, site string) {
	if s.cfg.NoHB || key == 0 {
		return
	}
	sw := s.shadow[key]
	if sw == nil {
		sw = &shadowWord{name: name, reads: map[int]access{}}
		s.shadow[key] = sw
		s.keepers = append(s.keepers, keep)
	}
	me := access{g: g.ID, clk: g.vc.at(g.ID), site: site}
	if w := sw.write; w != nil && w.g != g.ID && w.clk > g.vc.at(w.g) {
		s.race(name, *w, true, me, write)
	}
	if write {
		for _, r := range sw.reads {
			if r.g != g.ID && r.clk > g.vc.at(r.g) {
				s.race(name, r, false, me, true)
			}
		}
		sw.write = &me
		sw.reads = map[int]access{}
	} else {
		sw.reads[g.ID] = me
	}
}

func (s *Sim) race(name string, a access, aw bool, b access, bw bool) {
	sites := []string{rw(aw) + "@" + a.site, rw(bw) + "@" + b.site}
	sort.Strings(sites)
	site := name + ":" + sites[0] + "|" + sites[1]
	v := &Violation{Class: "race", Site: site,
		Text: fmt.Sprintf("unordered conflicting accesses to field %q: g%d %s at %s and g%d %s at %s (no happens-before edge from the code's own synchronisation)",
			name, a.g, rw(aw), a.site, b.g, rw(bw), b.site)}
	if _, ok := s.Races[site]; !ok {
		s.Races[site] = v
		s.raceOrder = append(s.raceOrder, site)
		s.logf("race %s", site)
	}
}

func rw(w bool) string {
	if w {
		return "write"
	}
	return "read"
}
