package props

import (
	"bytes"
	"encoding/json"
	"errors"
	"fmt"
	"io"
	"strings"
	"testing"
	"time"

	"github.com/biogo/biogo/alphabet"
	"github.com/biogo/biogo/io/featio/bed"
	"github.com/biogo/biogo/io/featio/gff"
	"github.com/biogo/biogo/io/seqio/fasta"
	"github.com/biogo/biogo/io/seqio/fastq"
	"github.com/biogo/biogo/seq"
	"github.com/biogo/biogo/seq/linear"

	"verif/harness/simio"
	"verif/harness/simrt"
)

// ---------------------------------------------------------------------------
// C03 — readers are total

type C03Plan struct {
	Reader   string         `json:"reader"` // fasta | fastq | bed3 | bed4 | bed5 | bed6 | bed12 | gff
	Input    []byte         `json:"input"`
	Text     string         `json:"text,omitempty"` // the input again, readable (informational)
	Expect   string         `json:"expect,omitempty"`
	Delivery simio.Delivery `json:"delivery"`
	// Expect == "fastq-records": Input is a sequence of well separated
	// four-line FASTQ records, some structurally invalid by construction;
	// Valid lists the valid ones. A successful Read must return one of them.
	Valid   []SeqRec `json:"valid,omitempty"`
	Invalid int      `json:"invalid,omitempty"` // number of invalid records in a "fastq-records" input
}

var c03Readers = []string{"fasta", "fastq", "bed3", "bed4", "bed5", "bed6", "bed12", "gff", "gff", "gff-notimeformat", "fasta-picky", "fastq-picky",
	"fastq-solexa", "fastq-illumina1.3", "fastq-illumina1.5", "fastq-illumina1.8", "fastq-illumina1.9", "fasta-idprefix", "fasta-qseq", "fastq-plain", "gff-ansic"}

// the quality encodings a FASTQ template may declare
var fastqEncodings = map[string]alphabet.Encoding{
	"fastq-solexa": alphabet.Solexa, "fastq-illumina1.3": alphabet.Illumina1_3, "fastq-illumina1.5": alphabet.Illumina1_5,
	"fastq-illumina1.8": alphabet.Illumina1_8, "fastq-illumina1.9": alphabet.Illumina1_9,
}

// A reader template may refuse a name or a description (the doc comments of
// the readers' Read say so); none of the library's own types does. The picky
// templates refuse empty names and descriptions that mention a digit.
var errPicky = errors.New("picky template: refused")

func pickyName(n string) bool { return n == "" || strings.ContainsAny(n, ">@;") }
func pickyDesc(d string) bool { return strings.ContainsAny(d, "0123456789") }

type pickySeq struct{ *linear.Seq }

func (s pickySeq) SetName(n string) error {
	if pickyName(n) {
		return errPicky
	}
	return s.Seq.SetName(n)
}
func (s pickySeq) SetDescription(d string) error {
	if pickyDesc(d) {
		return errPicky
	}
	return s.Seq.SetDescription(d)
}
func (s pickySeq) Clone() seq.Sequence { return pickySeq{s.Seq.Clone().(*linear.Seq)} }

type pickyQSeq struct{ *linear.QSeq }

func (s pickyQSeq) SetName(n string) error {
	if pickyName(n) {
		return errPicky
	}
	return s.QSeq.SetName(n)
}
func (s pickyQSeq) SetDescription(d string) error {
	if pickyDesc(d) {
		return errPicky
	}
	return s.QSeq.SetDescription(d)
}
func (s pickyQSeq) Clone() seq.Sequence { return pickyQSeq{s.QSeq.Clone().(*linear.QSeq)} }

// genericRead adapts all readers to one call shape.
func openReader(kind string, src io.Reader) (func() (interface{}, error), error) {
	switch kind {
	case "fasta":
		r := fasta.NewReader(src, linear.NewSeq("", nil, alphabet.DNA))
		return func() (interface{}, error) { s, err := r.Read(); return s, err }, nil
	case "fastq":
		r := fastq.NewReader(src, linear.NewQSeq("", nil, alphabet.DNA, alphabet.Sanger))
		return func() (interface{}, error) { s, err := r.Read(); return s, err }, nil
	case "fasta-qseq":
		r := fasta.NewReader(src, linear.NewQSeq("", nil, alphabet.DNA, alphabet.Sanger)) // a quality-carrying template
		return func() (interface{}, error) { s, err := r.Read(); return s, err }, nil
	case "fastq-solexa", "fastq-illumina1.3", "fastq-illumina1.5", "fastq-illumina1.8", "fastq-illumina1.9":
		r := fastq.NewReader(src, linear.NewQSeq("", nil, alphabet.DNA, fastqEncodings[kind]))
		return func() (interface{}, error) { s, err := r.Read(); return s, err }, nil
	case "fasta-idprefix":
		r := fasta.NewReader(src, linear.NewSeq("", nil, alphabet.DNA))
		r.IDPrefix = []byte(">gi|") // a public field: headers carry a longer marker
		return func() (interface{}, error) { s, err := r.Read(); return s, err }, nil
	case "fasta-picky":
		r := fasta.NewReader(src, pickySeq{linear.NewSeq("", nil, alphabet.DNA)})
		return func() (interface{}, error) { s, err := r.Read(); return s, err }, nil
	case "fastq-picky":
		r := fastq.NewReader(src, pickyQSeq{linear.NewQSeq("", nil, alphabet.DNA, alphabet.Sanger)})
		return func() (interface{}, error) { s, err := r.Read(); return s, err }, nil
	case "fastq-plain":
		r := fastq.NewReader(src, linear.NewSeq("", nil, alphabet.DNA)) // a template without qualities
		return func() (interface{}, error) { s, err := r.Read(); return s, err }, nil
	case "gff", "gff-notimeformat", "gff-ansic":
		r := gff.NewReader(src)
		if kind == "gff-notimeformat" {
			r.TimeFormat = "" // a documented setting: date lines are then not parsed
		}
		if kind == "gff-ansic" {
			r.TimeFormat = time.ANSIC // a layout of several words
		}
		return func() (interface{}, error) { f, err := r.Read(); return f, err }, nil
	}
	var t int
	if _, err := fmt.Sscanf(kind, "bed%d", &t); err != nil {
		return nil, fmt.Errorf("unknown reader %q", kind)
	}
	r, err := bed.NewReader(src, t)
	if err != nil {
		return nil, err
	}
	return func() (interface{}, error) { f, err := r.Read(); return f, err }, nil
}

func countLines(b []byte) int {
	n := bytes.Count(b, []byte{'\n'})
	if len(b) > 0 && b[len(b)-1] != '\n' {
		n++
	}
	return n
}

// C03Group: several inputs read by independent readers on different
// goroutines, as clients of the simulator (which switches at every call into
// a medium and watches the woven packages' shared state).
type C03Group struct {
	Plans []C03Plan `json:"plans"`
}

func runC03Group(t *testing.T, c *Case, o RunOpts) *Result {
	noteCase(c)
	defer progress.Add(1)
	var g C03Group
	if err := json.Unmarshal(c.Plan, &g); err != nil {
		return &Result{ToolErr: err.Error()}
	}
	return execSim(t, c, o, 400000, false, func(sim *simrt.Sim) func() {
		yield := func() { sim.Yield("medium") }
		for i := range g.Plans {
			i := i
			sim.Client(fmt.Sprintf("reader%d", i), func() {
				res := c03Body(&g.Plans[i], yield)
				if v := res.Viol; v != nil {
					sim.Fail(v.Class, v.Site+"-concurrent-instances", fmt.Sprintf("%d independent readers on different goroutines, reader %d: %s", len(g.Plans), i, v.Text))
				}
			})
		}
		return nil
	})
}

func genC03Group(r *simrt.RNG) *Case {
	var g C03Group
	same := c03Readers[r.Intn(len(c03Readers))]
	if r.Intn(4) == 0 {
		// keyword arguments in spellings this process may not have met yet
		// (anything a reader memoises is shared between readers)
		for n := r.Range(2, 3); n > 0; n-- {
			var buf bytes.Buffer
			for k := r.Range(1, 3); k > 0; k-- {
				fmt.Fprintf(&buf, "##%s %s%s\n", []string{"Type", "type", "sequence-region", "DNA"}[r.Intn(4)],
					mangleCase(r, []string{"DNA", "RNA", "Protein", "chr"}[r.Intn(4)]), []string{"", " x", " x 1 9"}[r.Intn(3)])
			}
			buf.WriteString("seq\tsrc\tfeat\t1\t5\t.\t+\t.\n")
			g.Plans = append(g.Plans, C03Plan{Reader: "gff", Input: buf.Bytes(), Delivery: simio.NoFault("all", 0)})
		}
		return &Case{Prop: "C03", Kind: "group", Plan: marshalPlan(g),
			Sched: Sched{Strategy: fmt.Sprintf("rw:%g", []float64{0.2, 0.5, 1}[r.Intn(3)]), Seed: r.Uint64()}}
	}
	for n := r.Range(2, 3); n > 0; n-- {
		reader, input, _, _, _ := genC03Input(r)
		if r.Bool() && fmtOf(reader) != fmtOf(same) {
			// more often than not the same kind of reader several times over
			for try := 0; try < 8 && fmtOf(reader) != fmtOf(same); try++ {
				reader, input, _, _, _ = genC03Input(r)
			}
		}
		if len(input) > 600 {
			input = input[:600]
		}
		if fmtOf(reader) == fmtOf(same) && r.Bool() {
			reader = same // the very same reader configuration several times over
		}
		g.Plans = append(g.Plans, C03Plan{Reader: reader, Input: input, Delivery: simio.NoFault([]string{"all", "uniform", "one"}[r.Intn(3)], r.Uint64())})
	}
	return &Case{Prop: "C03", Kind: "group", Plan: marshalPlan(g),
		Sched: Sched{Strategy: fmt.Sprintf("rw:%g", []float64{0.2, 0.5, 1}[r.Intn(3)]), Seed: r.Uint64()}}
}

func runC03(t *testing.T, c *Case, o RunOpts) *Result {
	if c.Kind == "group" {
		return runC03Group(t, c, o)
	}
	noteCase(c)
	defer progress.Add(1)
	var pl C03Plan
	if err := json.Unmarshal(c.Plan, &pl); err != nil {
		return &Result{ToolErr: err.Error()}
	}
	res := c03Body(&pl, nil)
	if res.ToolErr == "" {
		res.Hash = planHash(c)
	}
	return res
}

// c03Body judges one reader on one input; onRead, if set, is the medium's yield point.
func c03Body(plp *C03Plan, onRead func()) *Result {
	pl := *plp
	res := &Result{Trivial: len(pl.Input) == 0}
	src := simio.NewSource(pl.Input, pl.Delivery)
	src.OnRead = onRead
	read, err := openReader(pl.Reader, src)
	if err != nil {
		return &Result{ToolErr: err.Error()}
	}
	delivered := pl.Input
	if pl.Delivery.TruncateAt >= 0 && pl.Delivery.TruncateAt < len(delivered) {
		delivered = delivered[:pl.Delivery.TruncateAt]
	}
	if pl.Delivery.ErrorAt >= 0 && pl.Delivery.ErrorAt < len(delivered) {
		delivered = delivered[:pl.Delivery.ErrorAt]
	}
	lines := countLines(delivered)
	site := "c03-" + pl.Reader
	firstErr := -1
	okRecs, errCalls := 0, 0
	for call := 0; call < lines+4; call++ {
		src.ResetPolls()
		var rec interface{}
		var rerr error
		if pv := guard(func() { rec, rerr = read() }); pv != nil {
			pv.Text = fmt.Sprintf("%s reader, call %d: %s", pl.Reader, call, pv.Text)
			res.Viol = pv
			break
		}
		if src.Spun {
			res.Viol = &simrt.Violation{Class: "hang", Site: "reader-spins", Text: fmt.Sprintf("%s reader, call %d: kept polling an exhausted stream (and swallowed the simulator's stop signal)", pl.Reader, call)}
			break
		}
		if rerr == nil && isNilValue(rec) {
			res.Viol = viol(site+"-nil-nil", "call %d returned neither a record nor an error", call)
			break
		}
		if pl.Expect == "fastq-records" && rerr == nil {
			if v := matchValid(rec, pl.Valid); v != nil {
				res.Viol = v
				break
			}
			okRecs++
		}
		if pl.Expect == "fastq-records" && rerr != nil && rerr != io.EOF {
			errCalls++
		}
		if call == 0 && pl.Expect == "error-first" && (rerr == nil || rerr == io.EOF) {
			res.Viol = viol(site+"-invalid-accepted", "structurally invalid input %q: first Read returned (%v, %v), want a non-EOF error", pl.Input, rec, rerr)
			break
		}
		if rerr != nil && firstErr < 0 {
			firstErr = call
		}
		if rerr == io.EOF && call > firstErr {
			break // EOF twice in a row is enough
		}
	}
	res.Steps = src.Reads
	if res.Viol == nil && pl.Expect == "fastq-records" && pl.Delivery.TruncateAt < 0 && pl.Delivery.ErrorAt < 0 {
		if okRecs > len(pl.Valid) {
			res.Viol = viol(site+"-invalid-accepted", "%d records returned without error but only %d of the records in the input are valid", okRecs, len(pl.Valid))
		} else if errCalls == 0 && pl.Invalid > 0 {
			res.Viol = viol(site+"-invalid-accepted", "the input contains structurally invalid records but no Read reported an error")
		}
	}
	if res.Viol == nil && (firstErr < 0 || firstErr > lines) {
		res.Viol = viol(site+"-no-end", "input of %d lines: no error or io.EOF within %d calls (first error at call %d)", lines, lines+1, firstErr)
	}
	return res
}

// matchValid checks that a record returned without error is one of the valid
// records of a "fastq-records" input.
func matchValid(rec interface{}, valid []SeqRec) *simrt.Violation {
	q, ok := rec.(*linear.QSeq)
	if !ok {
		return viol("c03-fastq-type", "unexpected record type %T", rec)
	}
	letters := make([]byte, len(q.Seq))
	for i, ql := range q.Seq {
		letters[i] = byte(ql.L)
	}
	for _, v := range valid {
		if v.Name != q.ID || v.Desc != q.Desc || v.Letters != string(letters) || len(v.Quals) != len(q.Seq) {
			continue
		}
		same := true
		for i, ql := range q.Seq {
			if int(ql.Q) != v.Quals[i] {
				same = false
			}
		}
		if same {
			return nil
		}
	}
	return viol("c03-fastq-invalid-accepted", "Read returned the record (%q, %q, %d letters %s) without error, but no valid record of the input has that content (a structurally invalid record was accepted, or state leaked between records)", q.ID, q.Desc, len(letters), clip(string(letters)))
}

// fastqRecords builds a file of well separated four-line records, each valid
// or invalid in one of two ways after which a reader is still at a record
// boundary: sequence/quality length mismatch, or a missing sequence line.
// Quality strings never begin with '@', so no line but a header can start a
// record and a reader cannot legitimately assemble a record across records.
func fastqRecords(r *simrt.RNG) ([]byte, []SeqRec, int) {
	var buf bytes.Buffer
	var valid []SeqRec
	invalid := 0
	n := r.Range(2, 5)
	lens := []int{r.Range(1, 9), r.Range(1, 9), r.Range(1, 9)}
	for i := 0; i < n; i++ {
		name := fmt.Sprintf("r%d", i)
		k := lens[r.Intn(len(lens))]
		letters := genLetters(r, "dna", k)
		qual := func(m int) ([]byte, []int) {
			b := make([]byte, m)
			qs := make([]int, m)
			for j := range b {
				qs[j] = r.Range(1, 40)
				if j > 0 && r.Intn(6) == 0 {
					qs[j] = '@' - 33
				}
				if j == 0 && qs[j] == '@'-33 {
					qs[j]++ // a quality line must not look like a header
				}
				b[j] = byte(33 + qs[j])
			}
			return b, qs
		}
		switch r.Intn(4) {
		case 0: // length mismatch
			m := lens[r.Intn(len(lens))]
			if m == k {
				m = k + 1
			}
			qb, _ := qual(m)
			fmt.Fprintf(&buf, "@%s\n%s\n+\n%s\n", name, letters, qb)
			invalid++
		case 1: // sequence line missing
			qb, _ := qual(lens[r.Intn(len(lens))])
			fmt.Fprintf(&buf, "@%s\n+\n%s\n", name, qb)
			invalid++
		default:
			qb, qs := qual(k)
			fmt.Fprintf(&buf, "@%s\n%s\n+\n%s\n", name, letters, qb)
			valid = append(valid, SeqRec{Name: name, Letters: letters, Quals: qs})
		}
	}
	return buf.Bytes(), valid, invalid
}

// --- input generation ------------------------------------------------------

var c03Alphabets = map[string]string{
	"fasta": ">>acgtN \t\r\n\n\n;x",
	"fastq": "@@++acgtI!# \t\r\n\n\n",
	"bed":   "c1\t\t\t09-+.x,# \r\n\n",
	"gff":   "##s\t\t\t\t09-+.x;= d\r\n\n",
}

func fmtOf(reader string) string {
	if strings.HasPrefix(reader, "bed") {
		return "bed"
	}
	if strings.HasPrefix(reader, "gff") {
		return "gff"
	}
	if strings.HasPrefix(reader, "fastq") {
		return "fastq"
	}
	if strings.HasPrefix(reader, "fasta") {
		return "fasta"
	}
	return strings.TrimSuffix(reader, "-picky")
}

// mangleCase flips the case of some letters.
func mangleCase(r *simrt.RNG, s string) string {
	b := []byte(s)
	mode := r.Intn(4)
	for i, c := range b {
		isL := (c >= 'a' && c <= 'z') || (c >= 'A' && c <= 'Z')
		if !isL {
			continue
		}
		switch mode {
		case 0: // all upper
			if c >= 'a' {
				b[i] = c - 32
			}
		case 1: // all lower
			if c <= 'Z' {
				b[i] = c + 32
			}
		case 2: // capitalised
			if i == 0 && c >= 'a' {
				b[i] = c - 32
			} else if i > 0 && c <= 'Z' {
				b[i] = c + 32
			}
		default:
			if r.Bool() {
				b[i] = c ^ 32
			}
		}
	}
	return string(b)
}

// gffMetalines builds an input out of GFF "##" lines: every keyword the reader
// knows, in the documented spelling or with its case changed, with complete,
// missing or odd arguments, and inline sequence blocks whose begin and end
// markers agree or not.
func gffMetalines(r *simrt.RNG) []byte {
	var buf bytes.Buffer
	kws := []string{"gff-version", "source-version", "date", "Type", "type", "sequence-region", "DNA", "RNA", "Protein", "dna", "rna", "protein"}
	args := []string{"", "2", "3", "x", "prog 1.0", "2020-1-02", "2020-01-02", "DNA", "DNA chr1", "Protein p", "chr1 1 100", "chr1 0 5", "chr1 -3 7", "chr1 1", "s1", "s 1", "Dna", "dna", "rna x", "PROTEIN p", "Protein", "dNA"}
	for n := r.Range(1, 5); n > 0; n-- {
		kw := kws[r.Intn(len(kws))]
		if r.Intn(3) == 0 {
			kw = mangleCase(r, kw)
		}
		switch strings.ToLower(kw) {
		case "dna", "rna", "protein":
			if r.Intn(3) != 0 {
				// a sequence block
				end := kw
				if r.Intn(4) == 0 {
					end = mangleCase(r, kw)
				}
				fmt.Fprintf(&buf, "##%s %s\n", kw, []string{"s1", "p1", ""}[r.Intn(3)])
				for k := r.Intn(3); k > 0; k-- {
					fmt.Fprintf(&buf, "##%s\n", genLetters(r, "protein", r.Range(1, 12)))
				}
				if r.Intn(6) != 0 {
					fmt.Fprintf(&buf, "##end-%s\n", end)
				}
				continue
			}
		}
		a := args[r.Intn(len(args))]
		if a == "" {
			fmt.Fprintf(&buf, "##%s\n", kw)
		} else {
			fmt.Fprintf(&buf, "##%s %s\n", kw, a)
		}
	}
	if r.Bool() {
		buf.WriteString("seq\tsrc\tfeat\t1\t5\t.\t+\t.\n")
	}
	return buf.Bytes()
}

func randomBytes(r *simrt.RNG, reader string) []byte {
	a := c03Alphabets[fmtOf(reader)]
	n := r.Pick(0, 1, 2, 5, 12, 40, 120)
	b := make([]byte, n)
	for i := range b {
		if r.Intn(12) == 0 {
			b[i] = byte(r.Intn(256))
		} else {
			b[i] = a[r.Intn(len(a))]
		}
	}
	return b
}

// validText produces a well-formed file for the reader from the C01/C02 generators.
func validText(r *simrt.RNG, reader string) []byte {
	for try := 0; try < 20; try++ {
		switch fmtOf(reader) {
		case "fasta", "fastq":
			var pl C01Plan
			json.Unmarshal(genC01(r).Plan, &pl)
			if pl.Format != fmtOf(reader) {
				continue
			}
			for i := range pl.Recs {
				if len(pl.Recs[i].Letters) > 200 {
					pl.Recs[i].Letters = pl.Recs[i].Letters[:r.Range(0, 200)]
					if len(pl.Recs[i].Quals) > len(pl.Recs[i].Letters) {
						pl.Recs[i].Quals = pl.Recs[i].Quals[:len(pl.Recs[i].Letters)]
					}
				}
			}
			if text, _, v := writeSeqs(&pl); v == nil {
				return text
			}
		default:
			var pl C02Plan
			json.Unmarshal(genC02(r).Plan, &pl)
			if pl.Format != fmtOf(reader) {
				continue
			}
			if pl.Format == "bed" {
				var t int
				fmt.Sscanf(reader, "bed%d", &t)
				pl.BedType, pl.WriteType = 12, t
			}
			for i := range pl.Items {
				if len(pl.Items[i].Letters) > 200 {
					pl.Items[i].Letters = pl.Items[i].Letters[:200]
				}
			}
			var text []byte
			var v *simrt.Violation
			if pv := guard(func() { text, _, _, v = writeFeats(&pl) }); pv == nil && v == nil {
				if pl.Format == "gff" && r.Intn(3) == 0 {
					// the metadata lines a writer may emit (WriteMetaData)
					meta := []string{"##date 2020-1-02\n", "##source-version prog 1.0\n", "##Type DNA\n", "##Type Protein p1\n", "# a comment\n"}
					pre := ""
					for k := r.Range(1, 3); k > 0; k-- {
						pre += meta[r.Intn(len(meta))]
					}
					text = append([]byte(pre), text...)
				}
				return text
			}
		}
	}
	return nil
}

var numericBoundary = []string{"0", "-1", "1", "", "x", "9223372036854775807", "9223372036854775808", "-9223372036854775809", "1e3", "0x10", "+5", " 7", "1.5", "00", "2147483648"}

// nonNumeric: spellings no integer parser may accept as a coordinate.
var nonNumeric = []string{"", "x", "-", "+", "--1", "1-", "0x", "1e", ".", "1.", "\uff11\uff12", "1 2", "NaN"}

func mutate(r *simrt.RNG, text []byte, reader string) []byte {
	b := append([]byte(nil), text...)
	for k := r.Range(1, 3); k > 0; k-- {
		if len(b) == 0 {
			return b
		}
		switch r.Intn(10) {
		case 0: // flip a byte
			b[r.Intn(len(b))] = byte(r.Pick(r.Intn(256), r.Intn(256), 0x00, 0x7f, 0x80, 0x85, 0xa0, 0xbf, 0xc0, 0xff))
		case 1: // delete a byte
			i := r.Intn(len(b))
			b = append(b[:i], b[i+1:]...)
		case 2: // insert a structural character
			i := r.Intn(len(b) + 1)
			ch := "\n\t >@+#;.-0\r"[r.Intn(12)]
			b = append(b[:i], append([]byte{ch}, b[i:]...)...)
		case 3, 4, 5, 6: // field level
			lines := bytes.Split(b, []byte{'\n'})
			li := r.Intn(len(lines))
			sep := []byte{'\t'}
			if bytes.HasPrefix(lines[li], []byte("##")) {
				sep = []byte{' '}
			}
			f := bytes.Split(lines[li], sep)
			fi := r.Intn(len(f))
			switch r.Intn(6) {
			case 5: // a byte at the edge of the field that some classifications call blank and others do not
				odd := []byte{byte(r.Pick(0x85, 0xa0, 0x00, 0x0b, 0x0c, 0x1f, 0x7f, 0xff, ' ', '"', '\\', ';', '='))}
				if r.Bool() {
					f[fi] = append(odd, f[fi]...)
				} else {
					f[fi] = append(append([]byte(nil), f[fi]...), odd...)
				}
			case 0: // delete column
				f = append(f[:fi], f[fi+1:]...)
			case 1: // duplicate column
				f = append(f[:fi+1], f[fi:]...)
			case 2: // empty field
				f[fi] = nil
			case 3: // numeric boundary value, or surgery on a comma-separated list
				if parts := bytes.Split(f[fi], []byte{','}); len(parts) > 1 && r.Bool() {
					switch r.Intn(3) {
					case 0: // drop one component
						k := r.Intn(len(parts))
						parts = append(parts[:k], parts[k+1:]...)
					case 1: // keep the first two
						parts = parts[:2]
					default: // duplicate one
						k := r.Intn(len(parts))
						parts = append(parts[:k+1], parts[k:]...)
					}
					f[fi] = bytes.Join(parts, []byte{','})
				} else if r.Intn(4) == 0 {
					f[fi] = []byte([]string{"1,2", "255,128", "0,0", "1,2,3,4", ",", "1,", ",1"}[r.Intn(7)])
				} else {
					f[fi] = []byte(numericBoundary[r.Intn(len(numericBoundary))])
					if r.Intn(3) == 0 {
						f[fi] = []byte(nonNumeric[r.Intn(len(nonNumeric))])
					}
				}
			default: // keep only the first columns
				f = f[:fi]
			}
			lines[li] = bytes.Join(f, sep)
			b = bytes.Join(lines, []byte{'\n'})
		case 7: // delete a line
			lines := bytes.Split(b, []byte{'\n'})
			li := r.Intn(len(lines))
			lines = append(lines[:li], lines[li+1:]...)
			b = bytes.Join(lines, []byte{'\n'})
		case 8: // duplicate a line
			lines := bytes.Split(b, []byte{'\n'})
			li := r.Intn(len(lines))
			lines = append(lines[:li+1], lines[li:]...)
			b = bytes.Join(lines, []byte{'\n'})
		default: // swap two lines
			lines := bytes.Split(b, []byte{'\n'})
			i, j := r.Intn(len(lines)), r.Intn(len(lines))
			lines[i], lines[j] = lines[j], lines[i]
			b = bytes.Join(lines, []byte{'\n'})
		}
	}
	return b
}

// targeted returns a single structurally invalid line for the reader, of the
// kinds the property statement names.
func targeted(r *simrt.RNG, reader string) []byte {
	bad := nonNumeric[r.Intn(len(nonNumeric))]
	if f := fmtOf(reader); f != "bed" {
		reader = f
	}
	switch reader {
	case "fastq":
		if r.Intn(3) == 0 {
			return []byte([]string{"@a\nACGT\n+\nII\n", "@a\nAC\n+\nIIII\n", "@a desc\nACGTA\n+a desc\nIIII\n", "@r\nA\n+\n\n"}[r.Intn(4)])
		}
		// n letters against m != n quality characters; blanks inside either
		// line do not count (the reader strips them), so lines of equal raw
		// length can still be a mismatch
		n := r.Range(1, 12)
		m := n + r.Pick(-1, 1, -2, 2, -n)
		if m < 0 {
			m = 0
		}
		line := func(k int, set string, blanks int) string {
			b := make([]byte, 0, k+blanks)
			for i := 0; i < k; i++ {
				b = append(b, set[r.Intn(len(set))])
			}
			for ; blanks > 0 && len(b) >= 2; blanks-- {
				i := 1 + r.Intn(len(b)-1) // interior
				b = append(b[:i], append([]byte{" \t"[r.Intn(2)]}, b[i:]...)...)
			}
			return string(b)
		}
		sb, qb := 0, 0
		switch r.Intn(3) {
		case 0: // pad the shorter line with blanks to the same raw length
			if m < n {
				qb = n - m
			} else {
				sb = m - n
			}
		case 1:
			sb, qb = r.Intn(2), r.Intn(2)
		}
		plus := "+"
		if r.Bool() {
			plus = "+id"
		}
		return []byte("@id\n" + line(n, "ACGTN", sb) + "\n" + plus + "\n" + line(m, "!+5@IJ~", qb) + "\n")
	case "gff":
		feature := func(cols ...string) []byte { return []byte(strings.Join(cols, "\t") + "\n") }
		switch r.Intn(11) {
		case 0: // missing mandatory columns (1..7 of the 8)
			all := []string{"seq", "src", "feat", "1", "5", ".", "+", "."}
			return feature(all[:r.Range(1, 7)]...)
		case 1:
			return feature("seq", "src", "feat", bad, "5", ".", "+", ".")
		case 2:
			return feature("seq", "src", "feat", "1", bad, ".", "+", ".")
		case 3: // a GFF start of zero
			return feature("seq", "src", "feat", "0", "5", ".", "+", ".")
		case 4: // bad strand
			return feature("seq", "src", "feat", "1", "5", ".", []string{"x", "++", "", "?"}[r.Intn(4)], ".")
		case 5:
			return []byte("##gff-version\n")
		case 6:
			return []byte("##source-version\n")
		case 7:
			return []byte("##date\n")
		case 8:
			return []byte([]string{"##Type\n", "##type\n"}[r.Intn(2)])
		case 9:
			return []byte([]string{"##sequence-region\n", "##sequence-region x\n", "##sequence-region x 1\n", "##sequence-region x 0 5\n", "##sequence-region x a 5\n", "##sequence-region x 1 b\n"}[r.Intn(6)])
		default:
			return []byte([]string{"##DNA\n", "##RNA\n", "##Protein\n"}[r.Intn(3)])
		}
	}
	var t int
	fmt.Sscanf(reader, "bed%d", &t)
	cols := []string{"chr1", "1", "5", "name", "7", "+", "1", "5", "0", "1", "4,", "0,"}[:t]
	switch r.Intn(4) {
	case 0: // missing mandatory columns
		cols = cols[:r.Range(1, t-1)]
	case 1:
		cols[1] = bad
	case 2:
		cols[2] = bad
	default:
		if t >= 6 {
			cols[5] = []string{"x", "++", "?"}[r.Intn(3)]
		} else {
			cols[1] = "x"
		}
	}
	return []byte(strings.Join(cols, "\t") + "\n")
}

func genC03Input(r *simrt.RNG) (reader string, input []byte, expect string, valid []SeqRec, invalid int) {
	reader = c03Readers[r.Intn(len(c03Readers))]
	if reader == "fastq" && r.Intn(4) == 0 {
		input, valid, invalid = fastqRecords(r)
		return reader, input, "fastq-records", valid, invalid
	}
	if r.Intn(12) == 0 {
		input = boundaryLines(r, reader)
		return
	}
	if strings.HasSuffix(reader, "-picky") && r.Intn(3) == 0 {
		// complete records whose header the template refuses in part or whole
		var buf bytes.Buffer
		for n := r.Range(1, 4); n > 0; n-- {
			name := []string{"", "a", "b", ">c", "@d"}[r.Intn(5)]
			desc := []string{"", "", " d", " d1", "\t7"}[r.Intn(5)]
			letters := genLetters(r, "dna", r.Range(1, 9))
			if fmtOf(reader) == "fasta" {
				fmt.Fprintf(&buf, ">%s%s\n%s\n", name, desc, letters)
			} else {
				fmt.Fprintf(&buf, "@%s%s\n%s\n+\n%s\n", name, desc, letters, strings.Repeat("I", len(letters)))
			}
		}
		input = buf.Bytes()
		return
	}
	if fmtOf(reader) == "gff" && r.Intn(5) == 0 {
		input = gffMetalines(r)
		return
	}
	switch k := r.Intn(10); {
	case k < 2:
		input = randomBytes(r, reader)
	case k < 7:
		input = mutate(r, validText(r, reader), reader)
	case k < 8:
		input = validText(r, reader)
	default:
		if fmtOf(reader) == "fasta" {
			// the statement names no FASTA-specific invalid structure
			input = mutate(r, validText(r, reader), reader)
			break
		}
		input = targeted(r, reader)
		expect = "error-first"
	}
	return
}

// boundaryLines builds inputs whose lines end exactly at, just before or just
// after multiples of bufio's 4096-byte buffer, with or without a header and
// with or without a final terminator: where ReadLine hands out fragments.
func boundaryLines(r *simrt.RNG, reader string) []byte {
	var buf bytes.Buffer
	f := fmtOf(reader)
	if r.Bool() {
		switch f {
		case "fasta":
			buf.WriteString(">h d\n")
		case "fastq":
			buf.WriteString("@h d\n")
		case "gff":
			buf.WriteString("##DNA s\n##")
		}
	} else if r.Intn(3) == 0 {
		buf.WriteString("junk\n\n")
	}
	for k := r.Range(1, 2); k > 0; k-- {
		n := 4096*r.Range(1, 2) + r.Pick(-2, -1, 0, 0, 0, 1)
		fill := byte("ACGTacgtN#@+>\tI"[r.Intn(15)])
		buf.Write(bytes.Repeat([]byte{fill}, n))
		if k > 1 || r.Bool() {
			buf.WriteString([]string{"\n", "\r\n", " \n"}[r.Intn(3)])
		}
	}
	if f == "fastq" && r.Bool() {
		buf.WriteString("+\n")
		buf.Write(bytes.Repeat([]byte{'I'}, 4096*r.Range(1, 2)+r.Pick(-1, 0, 0, 1)))
		if r.Bool() {
			buf.WriteString("\n")
		}
	}
	return buf.Bytes()
}

func c03Case(reader string, input []byte, expect string, d simio.Delivery) *Case {
	return c03CaseV(reader, input, expect, d, nil)
}

func c03CaseV(reader string, input []byte, expect string, d simio.Delivery, valid []SeqRec, invalid ...int) *Case {
	pl := C03Plan{Reader: reader, Input: input, Expect: expect, Delivery: d, Valid: valid}
	if len(invalid) > 0 {
		pl.Invalid = invalid[0]
	}
	if len(input) <= 400 {
		pl.Text = string(input)
	}
	return &Case{Prop: "C03", Kind: reader, Plan: marshalPlan(pl)}
}

// hugeC03: inputs whose size, not shape, is the point: millions of skipped
// lines before a record, one multi-megabyte line, a million tiny records.
func hugeC03() []*Case {
	var out []*Case
	d := simio.NoFault("block", 11)
	skip := bytes.Repeat([]byte("\n#\n \n"), 400000) // 1.2 million blank / comment lines
	line := bytes.Repeat([]byte("ACGT"), 1<<20)      // one 4 MiB line
	for _, rd := range []string{"fasta", "fastq", "bed3", "bed12", "gff"} {
		rec := map[string]string{
			"fasta": ">a\nACGT\n", "fastq": "@a\nACGT\n+\nIIII\n", "bed3": "c\t1\t5\n",
			"bed12": "c\t1\t5\tn\t0\t+\t1\t5\t0\t1\t4\t0\n", "gff": "s\tx\tf\t1\t5\t.\t+\t.\n",
		}[rd]
		out = append(out,
			c03Case(rd, append(append([]byte(nil), skip...), rec...), "", d),
			c03Case(rd, append(append([]byte(rec), line...), '\n'), "", d),
			c03Case(rd, bytes.Repeat([]byte(rec), 200000), "", d))
	}
	return out
}

func exploreC03(t *testing.T, w *Worker, r *simrt.RNG) {
	w.Cold(t, genC03Group)
	if w.unit == 0 {
		for _, h := range hugeC03() {
			h := h
			w.Report(h, w.Guarded(h, func() *Result { return runC03(t, h, RunOpts{}) }))
		}
	}
	if r.Intn(40) == 0 {
		g := genC03Group(r)
		w.Report(g, runC03(t, g, RunOpts{}))
		return
	}
	reader, input, expect, valid, invalid := genC03Input(r)
	d := simio.PickDelivery(r)
	c := c03CaseV(reader, input, expect, d, valid, invalid)
	w.Report(c, runC03(t, c, RunOpts{}))
	if expect == "error-first" || len(input) == 0 {
		return
	}
	// faults: the producer dies (clean EOF) or the stream fails, at byte offsets
	var offsets []int
	if w.Tier == "thorough" && len(input) <= 2048 && r.Intn(4) == 0 {
		for i := 0; i < len(input); i++ {
			offsets = append(offsets, i) // every offset
		}
	} else {
		for i := 0; i < 3; i++ {
			offsets = append(offsets, r.Intn(len(input)))
		}
	}
	for _, off := range offsets {
		d2 := simio.PickDelivery(r)
		if r.Intn(3) == 0 {
			d2.ErrorAt = off
			d2.ErrorWithData = r.Bool()
		} else {
			d2.TruncateAt = off
		}
		// a truncated invalid record may well be a valid one: under stream
		// faults only the generic totality oracle applies
		c2 := c03Case(reader, input, "", d2)
		res := runC03(t, c2, RunOpts{})
		if d2.ErrorAt >= 0 {
			w.Stats.FaultsFired["stream-error"]++
		} else {
			w.Stats.FaultsFired["truncate"]++
		}
		w.Report(c2, res)
	}
}

func shrinkC03(c *Case) []*Case {
	if c.Kind == "group" {
		return nil
	}
	var pl C03Plan
	json.Unmarshal(c.Plan, &pl)
	var out []*Case
	add := func(in []byte, d simio.Delivery) {
		out = append(out, c03CaseV(pl.Reader, in, pl.Expect, d, pl.Valid, pl.Invalid))
	}
	in := pl.Input
	d := pl.Delivery
	// make faults part of the input: a truncated input is a shorter input
	if pl.Expect == "" && d.TruncateAt >= 0 && d.TruncateAt < len(in) {
		d2 := d
		d2.TruncateAt = -1
		add(in[:d.TruncateAt], d2)
	}
	if d.Profile != "all" || d.ZeroReads || d.EOFWithData {
		d2 := simio.NoFault("all", 0)
		d2.TruncateAt, d2.ErrorAt, d2.ErrorWithData = d.TruncateAt, d.ErrorAt, d.ErrorWithData
		add(in, d2)
	}
	if pl.Expect != "" {
		// a targeted invalid line stays as generated: a shortened input need
		// not be invalid any more, so shrinking it would fabricate findings
		return out
	}
	// drop lines, then halves, then single bytes
	lines := bytes.SplitAfter(in, []byte{'\n'})
	if len(lines) > 1 && len(lines) <= 400 { // (a candidate per line: not for the size-driven inputs)
		for i := range lines {
			var b []byte
			for j, l := range lines {
				if j != i {
					b = append(b, l...)
				}
			}
			add(b, d)
		}
	}
	if len(in) > 8 {
		add(in[:len(in)/2], d)
		add(in[len(in)/2:], d)
	}
	if len(in) <= 64 {
		for i := range in {
			b := append(append([]byte(nil), in[:i]...), in[i+1:]...)
			add(b, d)
		}
	}
	return out
}

func init() {
	register(&Property{
		ID:      "C03",
		Explore: exploreC03,
		Run:     runC03,
		Shrink:  shrinkC03,
	})
}
