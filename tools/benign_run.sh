#!/bin/bash
# usage: benign_run.sh <group> <props...>
g=$1; shift
WT=/tmp/wt/$g
for d in /tmp/seedout/$g/change*; do n=${d##*change}
  cd $WT && git checkout -q -- . && git clean -fdq && git apply $d/patch.diff || { echo "$g $n APPLY FAILED"; continue; }
  for p in "$@"; do
    cd /verif && VERIF_REPO=$WT ./check $p quick > $d/check_$p.out 2>&1; rc=$?
    echo "$g change$n $p rc=$rc $(grep '^violation' $d/check_$p.out | cut -c1-200 | head -2 | tr '\n' '|') $(grep -v '^check\|^violation\|^VIOLATION\|^  ' $d/check_$p.out | head -3 | cut -c1-200 | tr '\n' '|')"
  done
  cd $WT && git checkout -q -- . && git clean -fdq
done
