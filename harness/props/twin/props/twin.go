// Package props (a second package of that name, on purpose) declares an
// element type whose reflect.Type.String() — "props.RecKey" — collides with
// that of a type in the main harness package: two distinct types that only
// their package path tells apart.
package props

type RecKey struct {
	Key    int
	Serial int
}

func (a RecKey) Less(b interface{}) bool { return a.Key < b.(RecKey).Key }
