#!/bin/bash
# usage: wave.sh <agent> <prop> : run the property's quick check and the confirmation for every change of the agent
a=$1; p=$2
for d in /tmp/seedout/$a/change*; do n=${d##*change}; [ -f $d/patch.diff ] || continue
  /tmp/seedout/run_seed.sh $a $n $p; /tmp/seedout/confirm.sh $a $n; done
