package props

import (
	"bytes"
	"encoding/json"
	"fmt"
	"strings"
	"testing"

	"verif/harness/simio"
	"verif/harness/simrt"
)

// ---------------------------------------------------------------------------
// C04 — layout and terminator independence
//
// A valid file in the writer's canonical layout is parsed once (that parse is
// the reference, so a C01/C02 defect is not reported twice); the medium then
// applies the layout changes the statement allows for the format, and the
// re-parse under a random delivery schedule must give the same records.

type Layout struct {
	Rewrap         int    `json:"rewrap,omitempty"` // FASTA: new sequence line width (0 = keep)
	CRLF           bool   `json:"crlf,omitempty"`
	NoFinalNewline bool   `json:"no_final_newline,omitempty"`
	BlankRate      int    `json:"blank_rate,omitempty"` // 1 in N eligible sites gets 1-2 blank lines (0 = none)
	TrailRate      int    `json:"trail_rate,omitempty"` // 1 in N lines gets trailing blanks (0 = none)
	Seed           uint64 `json:"seed,omitempty"`
}

type C04Plan struct {
	Seq      *C01Plan       `json:"seq,omitempty"`
	Feat     *C02Plan       `json:"feat,omitempty"`
	Layout   Layout         `json:"layout"`
	Delivery simio.Delivery `json:"delivery"`
}

// genC04Fit builds files whose LAST physical line (a header of a letter-less
// record, a single long sequence line, a quality line) ends exactly at, or a
// byte or two before, a multiple of bufio's 4096-byte buffer, with and
// without a final terminator: where a reader sees a full fragment followed by
// nothing.
func genC04Fit(r *simrt.RNG) *Case {
	enc := phredEncodings[r.Intn(len(phredEncodings))]
	sp := C01Plan{Alpha: "dna", Enc: int(enc), Width: 1 << 30}
	L := 4096*r.Range(1, 3) - r.Pick(0, 0, 0, 1, 1, 2, 3)
	if r.Intn(3) == 0 {
		sp.Recs = append(sp.Recs, SeqRec{Name: "first", Letters: genLetters(r, "dna", r.Intn(50))})
	}
	if r.Bool() {
		sp.Format = "fasta"
		if r.Intn(3) == 0 {
			// letter-less record whose header line is L bytes long
			name := strings.Repeat("n", L-1)
			desc := ""
			if r.Bool() && L > 20 {
				k := r.Range(1, L-3)
				name, desc = strings.Repeat("n", k), strings.Repeat("d", L-2-k)
			}
			sp.Recs = append(sp.Recs, SeqRec{Name: name, Desc: desc})
		} else {
			sp.Recs = append(sp.Recs, SeqRec{Name: "last", Letters: genLetters(r, "dna", L)})
		}
	} else {
		sp.Format = "fastq"
		sp.Qual = true
		sp.QID = r.Intn(4) == 0
		rec := SeqRec{Name: "last", Letters: genLetters(r, "dna", L), Quals: make([]int, L)}
		lo, hi := qRange(enc)
		for i := range rec.Quals {
			rec.Quals[i] = lo + (i*7)%(hi-lo+1)
		}
		sp.Recs = append(sp.Recs, rec)
	}
	for i := range sp.Recs {
		if sp.Qual && sp.Recs[i].Quals == nil {
			sp.Recs[i].Quals = make([]int, len(sp.Recs[i].Letters))
			lo, _ := qRange(enc)
			for j := range sp.Recs[i].Quals {
				sp.Recs[i].Quals[j] = lo + 5
			}
		}
	}
	pl := C04Plan{Seq: &sp, Delivery: simio.PickDelivery(r)}
	pl.Layout = Layout{Seed: r.Uint64(), CRLF: r.Intn(3) == 0, NoFinalNewline: r.Intn(3) != 0}
	if r.Intn(3) == 0 {
		pl.Layout.TrailRate = 1
	}
	return &Case{Prop: "C04", Kind: sp.Format, Plan: marshalPlan(pl)}
}

func genC04(r *simrt.RNG) *Case {
	if r.Intn(15) == 0 {
		return genC04Fit(r)
	}
	var pl C04Plan
	kind := ""
	if r.Intn(5) < 3 {
		var sp C01Plan
		json.Unmarshal(genC01(r).Plan, &sp)
		pl.Seq = &sp
		kind = sp.Format
	} else {
		var fp C02Plan
		json.Unmarshal(genC02(r).Plan, &fp)
		pl.Feat = &fp
		kind = fp.Format
	}
	l := Layout{Seed: r.Uint64()}
	l.CRLF = r.Intn(3) == 0
	l.NoFinalNewline = r.Intn(3) == 0
	if kind == "fasta" || kind == "fastq" {
		if r.Intn(3) == 0 {
			l.BlankRate = r.Pick(1, 2, 5)
		}
		if r.Intn(3) == 0 {
			l.TrailRate = r.Pick(1, 2, 5)
		}
	}
	if kind == "fasta" && r.Intn(2) == 0 {
		l.Rewrap = r.Pick(1, 2, 7, 60, r.Range(1, 300), 4093, 4094, 4095, 4096, 4097, 8190, 8191, 8192, 8193, 12288, 20000, r.Range(1, 20000))
	}
	pl.Layout = l
	pl.Delivery = simio.PickDelivery(r)
	return &Case{Prop: "C04", Kind: kind, Plan: marshalPlan(pl)}
}

// splitLines splits canonical text (LF terminated lines) into lines without
// terminators.
func splitLines(text []byte) [][]byte {
	if len(text) == 0 {
		return nil
	}
	t := text
	if t[len(t)-1] == '\n' {
		t = t[:len(t)-1]
	}
	return bytes.Split(t, []byte{'\n'})
}

// applyLayout transforms canonical text. recLines gives, for FASTA/FASTQ, the
// number of canonical lines of each record (header first).
func applyLayout(kind string, text []byte, l Layout, recLines []int, seqPrefix string) []byte {
	lines := splitLines(text)
	r := simrt.NewRNG(l.Seed)
	type ln struct {
		b        []byte
		recStart bool
	}
	var out []ln
	switch kind {
	case "fasta":
		i := 0
		for _, k := range recLines {
			out = append(out, ln{lines[i], true})
			if l.Rewrap > 0 {
				var letters []byte
				for _, s := range lines[i+1 : i+k] {
					letters = append(letters, bytes.TrimPrefix(s, []byte(seqPrefix))...)
				}
				for p := 0; p < len(letters); p += l.Rewrap {
					e := p + l.Rewrap
					if e > len(letters) {
						e = len(letters)
					}
					out = append(out, ln{append([]byte(seqPrefix), letters[p:e]...), false})
				}
			} else {
				for _, s := range lines[i+1 : i+k] {
					out = append(out, ln{s, false})
				}
			}
			i += k
		}
	case "fastq":
		i := 0
		for _, k := range recLines {
			for j := 0; j < k; j++ {
				out = append(out, ln{lines[i+j], j == 0})
			}
			i += k
		}
	default:
		for _, s := range lines {
			out = append(out, ln{s, false})
		}
	}
	term := []byte{'\n'}
	if l.CRLF {
		term = []byte{'\r', '\n'}
	}
	var buf bytes.Buffer
	blank := func() {
		if l.BlankRate > 0 && r.Intn(l.BlankRate) == 0 {
			for n := r.Range(1, 2); n > 0; n-- {
				if l.TrailRate > 0 && r.Intn(l.TrailRate) == 0 {
					buf.WriteString([]string{" ", "\t", " \t"}[r.Intn(3)]) // an inserted blank line with trailing blanks
				}
				buf.Write(term)
			}
		}
	}
	for i, x := range out {
		// blank lines: anywhere for FASTA, only between records for FASTQ
		if kind == "fasta" || (kind == "fastq" && x.recStart) {
			blank()
		}
		buf.Write(x.b)
		if l.TrailRate > 0 && r.Intn(l.TrailRate) == 0 {
			buf.WriteString([]string{" ", "\t", "  \t ", " ", "\t", " \v", "\f", "\t\r"}[r.Intn(8)]) // "whitespace": mostly blanks, sometimes VT/FF/CR
		}
		if i == len(out)-1 && l.NoFinalNewline {
			break
		}
		buf.Write(term)
	}
	if (kind == "fasta" || kind == "fastq") && !l.NoFinalNewline && len(out) > 0 {
		blank()
	}
	return buf.Bytes()
}

// C04Group: several layout cases read by independent readers on different
// goroutines (clients of the simulator, which switches at every call into a
// medium and watches the woven packages' shared state).
type C04Group struct {
	Kinds []string  `json:"kinds"`
	Plans []C04Plan `json:"plans"`
}

func runC04Group(t *testing.T, c *Case, o RunOpts) *Result {
	noteCase(c)
	defer progress.Add(1)
	var g C04Group
	if err := json.Unmarshal(c.Plan, &g); err != nil {
		return &Result{ToolErr: err.Error()}
	}
	return execSim(t, c, o, 400000, false, func(sim *simrt.Sim) func() {
		yield := func() { sim.Yield("medium") }
		for i := range g.Plans {
			i := i
			sim.Client(fmt.Sprintf("reader%d", i), func() {
				res := &Result{}
				c04Body(g.Kinds[i], &g.Plans[i], res, yield)
				if v := res.Viol; v != nil {
					sim.Fail(v.Class, v.Site+"-concurrent-instances", fmt.Sprintf("%d independent readers on different goroutines, reader %d: %s", len(g.Plans), i, v.Text))
				}
			})
		}
		return nil
	})
}

func genC04Group(r *simrt.RNG) *Case {
	var g C04Group
	for n := r.Range(2, 3); n > 0; n-- {
		c := genC04(r)
		var pl C04Plan
		json.Unmarshal(c.Plan, &pl)
		if pl.Seq != nil {
			if len(pl.Seq.Recs) > 3 {
				pl.Seq.Recs = pl.Seq.Recs[:3]
			}
			for i := range pl.Seq.Recs {
				rec := &pl.Seq.Recs[i]
				if len(rec.Letters) > 300 {
					rec.Letters = rec.Letters[:300]
					if len(rec.Quals) > 300 {
						rec.Quals = rec.Quals[:300]
					}
				}
			}
		} else {
			if len(pl.Feat.Beds) > 3 {
				pl.Feat.Beds = pl.Feat.Beds[:3]
			}
			if len(pl.Feat.Items) > 3 {
				pl.Feat.Items = pl.Feat.Items[:3]
			}
			for i := range pl.Feat.Items {
				if len(pl.Feat.Items[i].Letters) > 300 {
					pl.Feat.Items[i].Letters = pl.Feat.Items[i].Letters[:300]
				}
			}
		}
		pl.Delivery = simio.NoFault([]string{"all", "uniform", "one"}[r.Intn(3)], r.Uint64())
		g.Kinds = append(g.Kinds, c.Kind)
		g.Plans = append(g.Plans, pl)
	}
	return &Case{Prop: "C04", Kind: "group", Plan: marshalPlan(g),
		Sched: PickStrategy(r, 400, []string{"client:"}, nil)}
}

func runC04(t *testing.T, c *Case, o RunOpts) *Result {
	if c.Kind == "group" {
		return runC04Group(t, c, o)
	}
	noteCase(c)
	defer progress.Add(1)
	var pl C04Plan
	if err := json.Unmarshal(c.Plan, &pl); err != nil {
		return &Result{ToolErr: err.Error()}
	}
	res := &Result{Hash: planHash(c)}
	c04Body(c.Kind, &pl, res, nil)
	return res
}

// c04Body judges one layout case; onRead, if set, is the medium's yield point.
func c04Body(kind string, plp *C04Plan, res *Result, onRead func()) *Result {
	pl := *plp
	site := "c04-" + kind
	if pl.Seq != nil {
		sp := pl.Seq
		sp.expand()
		var text []byte
		var v *simrt.Violation
		if pv := guard(func() { text, _, v = writeSeqs(sp) }); pv != nil || v != nil {
			res.Trivial = true // the writer's own problem is C01's business
			return res
		}
		ref, v := readSeqs(sp, simio.NewSource(text, simio.NoFault("all", 0)), len(sp.Recs)+2)
		if v != nil {
			res.Trivial = true // canonical text does not parse: C01's business
			return res
		}
		var recLines []int
		for _, rec := range sp.Recs {
			if sp.Format == "fasta" {
				nl := 0
				if n := len(rec.Letters); n > 0 {
					nl = 1
					if sp.Width < n {
						nl = (n + sp.Width - 1) / sp.Width
					}
				}
				recLines = append(recLines, 1+nl)
			} else {
				recLines = append(recLines, 4)
			}
		}
		tt := applyLayout(sp.Format, text, pl.Layout, recLines, sp.SeqPrefix)
		src := simio.NewSource(tt, pl.Delivery)
		src.OnRead = onRead
		got, v := readSeqs(sp, src, len(sp.Recs)+2)
		res.Steps = src.Reads
		res.Trivial = len(sp.Recs) == 0
		if v != nil {
			v.Site = "c04-" + strings.TrimPrefix(v.Site, "c01-")
			v.Text = "after the layout change " + fmt.Sprintf("%+v", pl.Layout) + ": " + v.Text
			res.Viol = v
			return res
		}
		if len(got) != len(ref) {
			res.Viol = viol(site+"-count", "canonical layout parses to %d records, %+v layout to %d (last record dropped or split)", len(ref), pl.Layout, len(got))
			return res
		}
		for i := range ref {
			if ref[i].name != got[i].name || ref[i].desc != got[i].desc {
				res.Viol = viol(site+"-header", "record %d: header (%s,%s) became (%s,%s) under layout %+v", i, clip(ref[i].name), clip(ref[i].desc), clip(got[i].name), clip(got[i].desc), pl.Layout)
				return res
			}
			if ref[i].letters != got[i].letters {
				res.Viol = viol(site+"-letters", "record %d: %d letters became %d letters (%s vs %s) under layout %+v", i, len(ref[i].letters), len(got[i].letters), clip(ref[i].letters), clip(got[i].letters), pl.Layout)
				return res
			}
			if fmt.Sprint(ref[i].quals) != fmt.Sprint(got[i].quals) {
				res.Viol = viol(site+"-qual", "record %d: quality scores changed under layout %+v", i, pl.Layout)
				return res
			}
		}
		return res
	}
	fp := pl.Feat
	var text []byte
	var v *simrt.Violation
	if pv := guard(func() { text, _, _, v = writeFeats(fp) }); pv != nil || v != nil {
		res.Trivial = true
		return res
	}
	n := len(fp.Beds) + len(fp.Items)
	ref, v := readFeats(fp, simio.NewSource(text, simio.NoFault("all", 0)), n+2)
	if v != nil {
		res.Trivial = true
		return res
	}
	tt := applyLayout(fp.Format, text, pl.Layout, nil, "")
	src := simio.NewSource(tt, pl.Delivery)
	src.OnRead = onRead
	got, v := readFeats(fp, src, n+2)
	res.Steps = src.Reads
	res.Trivial = n == 0
	if v != nil {
		v.Site = "c04-" + strings.TrimPrefix(v.Site, "c02-")
		v.Text = "after the layout change " + fmt.Sprintf("%+v", pl.Layout) + ": " + v.Text
		res.Viol = v
		return res
	}
	if len(got) != len(ref) {
		res.Viol = viol(site+"-count", "canonical layout parses to %d records, %+v layout to %d (the final record is dropped)", len(ref), pl.Layout, len(got))
		return res
	}
	for i := range ref {
		if ref[i] != got[i] {
			res.Viol = viol(site+"-fields", "record %d changed under layout %+v:\n  canonical %s\n  now       %s", i, pl.Layout, clip300(ref[i]), clip300(got[i]))
			return res
		}
	}
	return res
}

func shrinkC04(c *Case) []*Case {
	if c.Kind == "group" {
		return nil
	}
	var pl C04Plan
	json.Unmarshal(c.Plan, &pl)
	var out []*Case
	add := func(q C04Plan) {
		x := *c
		x.Plan = marshalPlan(q)
		out = append(out, &x)
	}
	// shrink the embedded file with the C01/C02 shrinkers
	if pl.Seq != nil {
		for _, sc := range shrinkC01(&Case{Plan: marshalPlan(pl.Seq)}) {
			var sp C01Plan
			json.Unmarshal(sc.Plan, &sp)
			q := pl
			q.Seq = &sp
			add(q)
		}
	}
	if pl.Feat != nil {
		for _, sc := range shrinkC02(&Case{Plan: marshalPlan(pl.Feat)}) {
			var fp C02Plan
			json.Unmarshal(sc.Plan, &fp)
			q := pl
			q.Feat = &fp
			add(q)
		}
	}
	l := pl.Layout
	if l.Rewrap != 0 {
		q := pl
		q.Layout.Rewrap = 0
		add(q)
	}
	if l.CRLF {
		q := pl
		q.Layout.CRLF = false
		add(q)
	}
	if l.NoFinalNewline {
		q := pl
		q.Layout.NoFinalNewline = false
		add(q)
	}
	if l.BlankRate != 0 {
		q := pl
		q.Layout.BlankRate = 0
		add(q)
	}
	if l.TrailRate != 0 {
		q := pl
		q.Layout.TrailRate = 0
		add(q)
	}
	if pl.Delivery.Profile != "all" || pl.Delivery.ZeroReads || pl.Delivery.EOFWithData {
		q := pl
		q.Delivery = simio.NoFault("all", 0)
		add(q)
	}
	return out
}

func init() {
	register(&Property{
		ID: "C04",
		Explore: func(t *testing.T, w *Worker, r *simrt.RNG) {
			w.Cold(t, genC04Group)
			if w.unit == 0 {
				// once per check: a 17 MiB FASTA record written at width 60 and
				// re-wrapped onto a single physical line
				sp := C01Plan{Format: "fasta", Alpha: "dna", Width: 60,
					Recs: []SeqRec{{Name: "huge", GenN: 17<<20 + 1}, {Name: "z", Letters: "acgt"}}}
				h := &Case{Prop: "C04", Kind: "fasta", Plan: marshalPlan(C04Plan{Seq: &sp, Layout: Layout{Rewrap: 1 << 30}, Delivery: simio.NoFault("block", 3)})}
				w.Report(h, runC04(t, h, RunOpts{}))
			}
			c := genC04(r)
			if r.Intn(15) == 0 {
				c = genC04Group(r)
			}
			w.Report(c, runC04(t, c, RunOpts{}))
		},
		Run:    runC04,
		Shrink: shrinkC04,
	})
}
