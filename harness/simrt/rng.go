package simrt

// RNG is a splitmix64 generator: tiny, stable across Go releases, and cheap to
// fork into independent named streams. Everything random in a run is derived
// from one of these, itself derived from VERIF_SEED.
type RNG struct{ s uint64 }

func NewRNG(seed uint64) *RNG { return &RNG{s: seed} }

func (r *RNG) Uint64() uint64 {
	r.s += 0x9e3779b97f4a7c15
	z := r.s
	z = (z ^ (z >> 30)) * 0xbf58476d1ce4e5b9
	z = (z ^ (z >> 27)) * 0x94d049bb133111eb
	return z ^ (z >> 31)
}

// Intn returns a value in [0,n). n must be > 0.
func (r *RNG) Intn(n int) int {
	if n <= 0 {
		panic("simrt: Intn of non-positive bound")
	}
	return int(r.Uint64() % uint64(n))
}

// Range returns a value in [lo,hi].
func (r *RNG) Range(lo, hi int) int { return lo + r.Intn(hi-lo+1) }

func (r *RNG) Float64() float64 { return float64(r.Uint64()>>11) / (1 << 53) }

func (r *RNG) Bool() bool { return r.Uint64()&1 == 1 }

// Chance reports true with probability p.
func (r *RNG) Chance(p float64) bool { return r.Float64() < p }

// Fork derives an independent stream labelled by k.
func (r *RNG) Fork(k uint64) *RNG {
	return &RNG{s: Mix(r.s, k)}
}

// Mix hashes two words into one (used to derive per-run seeds).
func Mix(a, b uint64) uint64 {
	x := NewRNG(a ^ (b * 0xd6e8feb86659fd93))
	x.Uint64()
	return x.Uint64()
}

// Pick returns one of the given ints.
func (r *RNG) Pick(xs ...int) int { return xs[r.Intn(len(xs))] }
