// Package props holds the per-property workloads, reference models and
// oracles, and the worker loop that the ./check driver fans out.
package props

import (
	"encoding/json"
	"fmt"
	"os"
	"path/filepath"
	"runtime"
	"sort"
	"strings"
	"sync/atomic"
	"testing"
	"time"

	"verif/harness/simrt"
)

// Case is one fully explicit simulated execution: what the clients do, how the
// schedule is chosen and which faults are injected. It is what a replay file
// stores.
type Case struct {
	Prop   string            `json:"property"`
	Kind   string            `json:"kind"`
	Plan   json.RawMessage   `json:"plan"`
	Sched  Sched             `json:"sched"`
	Faults []simrt.FaultSpec `json:"faults,omitempty"`
}

// Sched says how scheduling decisions are made. With Explicit set the choice
// list is replayed (missing entries = 0 = "keep running the current
// goroutine"); otherwise Strategy/Seed build a chooser.
type Sched struct {
	Strategy string `json:"strategy"`
	Seed     uint64 `json:"seed"`
	Explicit bool   `json:"explicit,omitempty"`
	Choices  []int  `json:"choices,omitempty"`
}

// Result of executing one case.
type Result struct {
	Viol    *simrt.Violation  `json:"violation,omitempty"`
	ToolErr string            `json:"tool_error,omitempty"`
	Steps   int               `json:"steps"`
	Choices []int             `json:"-"`
	Enabled [][]int           `json:"-"`
	Hash    string            `json:"hash"`
	Probes  map[string]int    `json:"-"`
	IOLog   []simrt.IORecord  `json:"-"`
	Fired   []simrt.IORecord  `json:"-"`
	Log     []string          `json:"-"`
	Races   []string          `json:"-"`
	Trivial bool              `json:"-"`
	Extra   map[string]string `json:"-"`
}

func (r *Result) Sig() string {
	if r.Viol == nil {
		return ""
	}
	return r.Viol.Signature()
}

// RunOpts are execution options that do not change the outcome.
type RunOpts struct {
	Record  bool
	KeepLog bool
	Expect  [][]int
}

// Property is what each checked property registers.
type Property struct {
	ID string
	// Explore generates and executes one unit of exploration (one case, or
	// for fault enumeration a base case plus all its single-fault variants),
	// reporting every execution through w.Report.
	Explore func(t *testing.T, w *Worker, r *simrt.RNG)
	// Run executes an explicit case.
	Run func(t *testing.T, c *Case, o RunOpts) *Result
	// Shrink proposes simpler variants of the case's plan.
	Shrink func(c *Case) []*Case
}

// currentCase / progress feed the no-progress watchdog: a case that neither
// finishes nor trips a simulator-level detector (a busy loop that touches no
// hook and no stream) is reported as a hang with the case as its replay file.
var (
	currentCase atomic.Pointer[Case]
	progress    atomic.Int64
)

func noteCase(c *Case) {
	currentCase.Store(c)
	progress.Add(1)
}

const hangSeconds = 60

// memLimit bounds a worker process (16 of them share the machine).
var memLimit = uint64(envInt("VERIF_MEM_MB", 2048)) << 20

// startWatchdog runs onHang(case) if for hangSeconds of wall-clock time no
// case starts or finishes, the simulator takes no scheduling decision and no
// simulated medium is read or written. Wall-clock is used only here, as a
// backstop: a large case on a loaded machine keeps the heartbeat going.
func startWatchdog(onHang func(c *Case)) (stop func()) {
	done := make(chan struct{})
	go func() {
		beat := func() int64 { return progress.Load() + simrt.Heartbeat.Load() }
		last, idle := beat(), 0
		t := time.NewTicker(time.Second)
		defer t.Stop()
		for {
			select {
			case <-done:
				return
			case <-t.C:
			}
			if cur := beat(); cur != last {
				last, idle = cur, 0
				continue
			}
			idle++
			if idle >= hangSeconds && currentCase.Load() != nil {
				onHang(currentCase.Load())
				return
			}
		}
	}()
	return func() { close(done) }
}

// currentTier is the tier of the worker ("quick" / "thorough"): generators
// draw their rarer, larger shapes more often in the thorough tier.
var currentTier string

// rare reports true one time in n (one time in n/3, at least 2, when thorough).
func rare(r *simrt.RNG, n int) bool {
	if currentTier == "thorough" {
		n = (n + 2) / 3
		if n < 2 {
			n = 2
		}
	}
	return r.Intn(n) == 0
}

var registry = map[string]*Property{}

func register(p *Property) { registry[p.ID] = p }

// MakeChooser builds the strategy for a non-explicit schedule.
func MakeChooser(s Sched) simrt.Chooser {
	if s.Explicit {
		return &simrt.Replay{List: s.Choices}
	}
	r := simrt.NewRNG(s.Seed)
	parts := strings.Split(s.Strategy, ":")
	switch parts[0] {
	case "rtc":
		return &simrt.RunToCompletion{}
	case "newest":
		return &simrt.Newest{}
	case "rw":
		p := 0.2
		if len(parts) > 1 {
			fmt.Sscanf(parts[1], "%g", &p)
		}
		return &simrt.RandomWalk{R: r, P: p}
	case "pct":
		d, h := 2, 200
		if len(parts) > 1 {
			fmt.Sscanf(parts[1], "%d", &d)
		}
		if len(parts) > 2 {
			fmt.Sscanf(parts[2], "%d", &h)
		}
		return &simrt.PCT{R: r, D: d, Horizon: h}
	case "starve":
		// starve:<class>:<from>:<len>:<mark>:<p>
		st := &simrt.Starve{Class: parts[1], Inner: &simrt.RandomWalk{R: r, P: 0.2}}
		if len(parts) > 2 {
			fmt.Sscanf(parts[2], "%d", &st.From)
		}
		if len(parts) > 3 {
			fmt.Sscanf(parts[3], "%d", &st.Len)
		}
		if len(parts) > 4 {
			st.Mark = parts[4]
		}
		if len(parts) > 5 {
			p := 0.2
			fmt.Sscanf(parts[5], "%g", &p)
			st.Inner = &simrt.RandomWalk{R: r, P: p}
		}
		return st
	}
	panic("unknown strategy " + s.Strategy)
}

// PickStrategy draws a strategy swarm-style. horizon is a rough run length.
func PickStrategy(r *simrt.RNG, horizon int, starveClasses []string, marks []string) Sched {
	s := Sched{Seed: r.Uint64()}
	switch k := r.Intn(10); {
	case k < 4:
		s.Strategy = fmt.Sprintf("rw:%g", []float64{0.05, 0.2, 0.5, 1}[r.Intn(4)])
	case k < 7:
		s.Strategy = fmt.Sprintf("pct:%d:%d", r.Range(1, 3), horizon)
	case k < 9 && len(starveClasses) > 0:
		cl := starveClasses[r.Intn(len(starveClasses))]
		mark := ""
		if len(marks) > 0 && r.Bool() {
			mark = marks[r.Intn(len(marks))]
		}
		s.Strategy = fmt.Sprintf("starve:%s:%d:%d:%s:%g", cl, r.Intn(horizon+1), r.Range(5, horizon+20), mark, []float64{0.05, 0.2, 0.5}[r.Intn(3)])
	case k < 9:
		s.Strategy = "rw:0.2"
	default:
		s.Strategy = "rtc"
	}
	return s
}

// ---------------------------------------------------------------------------
// worker

// Found is a violation kept by a worker.
type Found struct {
	Sig     string           `json:"sig"`
	Viol    *simrt.Violation `json:"violation"`
	Replay  string           `json:"replay"`
	Count   int              `json:"count"`
	First   int              `json:"first_run"`
	MinFrom string           `json:"minimised_from"`
}

// Stats is what a worker writes for the driver to merge.
type Stats struct {
	Prop         string            `json:"property"`
	Seed         uint64            `json:"seed"`
	Worker       int               `json:"worker"`
	Units        int               `json:"units"`
	Runs         int               `json:"runs"`
	Nontrivial   int               `json:"nontrivial"`
	Steps        int64             `json:"steps"`
	Found        []*Found          `json:"found"`
	ToolErrs     []string          `json:"tool_errors"`
	Probes       map[string]int    `json:"probes"`
	FaultsFired  map[string]int    `json:"faults_fired"`
	Strategies   map[string]int    `json:"strategies"`
	Kinds        map[string]int    `json:"kinds"`
	Samples      []json.RawMessage `json:"samples"`
	WallS        float64           `json:"wall_s"`
	HashFile     string            `json:"hash_file"`
	StoppedEarly string            `json:"stopped_early,omitempty"`
	MinimiseRuns int               `json:"minimise_runs"`
}

type Worker struct {
	T         *testing.T
	Prop      *Property
	Tier      string
	Stats     *Stats
	found     map[string]*Found
	hashes    map[string]struct{}
	hashOut   *os.File
	unit      int
	replayDir string
	runlog    *os.File
	nrep      int
	cold      bool // reporting the process's cold-start case (one per worker process, outside the unit numbering)
	coldDone  bool
}

// Guarded runs a case that may take the whole process down (a fatal runtime
// error such as stack exhaustion cannot be recovered): its replay file is
// written first and removed when the case returns, so that the driver finds
// it if the process dies.
func (w *Worker) Guarded(c *Case, run func() *Result) *Result {
	path := filepath.Join(w.replayDir, fmt.Sprintf("%s-%d-%d-inflight.json", w.Prop.ID, w.Stats.Seed, w.Stats.Worker))
	v := &simrt.Violation{Class: "crash", Site: "process-died", Text: "the process died while this case was running (fatal runtime error, e.g. stack exhaustion)"}
	WriteReplay(path, c, &Result{Viol: v})
	res := run()
	os.Remove(path)
	return res
}

// Cold runs gen's case as the very first thing this worker process does:
// whatever the code under test builds lazily at first use (tables, caches,
// registrations) is then first used inside a simulation, by several clients at
// once. The case is a function of (seed, worker), not of the unit stream.
func (w *Worker) Cold(t *testing.T, gen func(r *simrt.RNG) *Case) {
	if w.coldDone {
		return
	}
	w.coldDone = true
	r := simrt.NewRNG(w.Stats.Seed*1000003 + uint64(w.Stats.Worker) + 17)
	c := gen(r)
	w.cold = true
	w.Report(c, w.Prop.Run(t, c, RunOpts{}))
	w.cold = false
}

// Report accounts for one executed case and handles a violation: minimise,
// write the replay file, remember the signature.
func (w *Worker) Report(c *Case, res *Result) {
	st := w.Stats
	st.Runs++
	if w.runlog != nil && !w.cold {
		w.nrep++
		fmt.Fprintf(w.runlog, "%d.%d:%s:%s\n", w.unit, w.nrep, res.Hash, res.Sig())
	}
	st.Steps += int64(res.Steps)
	st.Kinds[c.Kind]++
	if !c.Sched.Explicit {
		name := c.Sched.Strategy
		if i := strings.Index(name, ":"); i >= 0 {
			name = name[:i]
		}
		st.Strategies[name]++
	}
	for k, v := range res.Probes {
		st.Probes[k] += v
	}
	for _, f := range res.Fired {
		st.FaultsFired[f.Kind]++
	}
	if res.Hash != "" {
		h := res.Hash
		if len(h) > 16 {
			h = h[:16]
		}
		if _, ok := w.hashes[h]; !ok {
			w.hashes[h] = struct{}{}
			if !res.Trivial {
				st.Nontrivial++
				if w.hashOut != nil {
					fmt.Fprintln(w.hashOut, h)
				}
			}
		}
	}
	if len(st.Samples) < 3 || (res.Viol == nil && len(st.Samples) < 6 && res.Steps > 40 && st.Runs%97 == 0) {
		if b, err := json.Marshal(map[string]interface{}{"case": c, "steps": res.Steps, "outcome": outcome(res)}); err == nil && len(b) < 4000 {
			st.Samples = append(st.Samples, b)
		}
	}
	if res.ToolErr != "" {
		if len(st.ToolErrs) < 5 {
			b, _ := json.Marshal(c)
			st.ToolErrs = append(st.ToolErrs, res.ToolErr+" case="+string(b))
		}
		return
	}
	if res.Viol == nil {
		return
	}
	sig := res.Sig()
	if f, ok := w.found[sig]; ok {
		f.Count++
		return
	}
	f := &Found{Sig: sig, Viol: res.Viol, Count: 1, First: w.unit}
	w.found[sig] = f
	st.Found = append(st.Found, f)
	if len(w.found) > 12 {
		return // enough distinct signatures; do not spend time minimising more
	}
	// make the failing case explicit
	ec := *c
	ec.Sched.Explicit = true
	ec.Sched.Choices = res.Choices
	mc, mres, n := Minimise(w.T, w.Prop, &ec, sig, 300)
	st.MinimiseRuns += n
	f.MinFrom = fmt.Sprintf("choices=%d plan=%dB", len(res.Choices), len(c.Plan))
	if mres.Viol != nil {
		f.Viol = mres.Viol
	} else {
		// not reproducible inside this process (the violation depends on
		// process-global state, e.g. gob's type registry): report the case as
		// first observed
		mc = &ec
		keep := *res
		keep.Log = append([]string{"NOTE: the violation did not recur when the case was re-executed in the same process; replay it in a fresh process"}, keep.Log...)
		mres = &keep
	}
	path := filepath.Join(w.replayDir, fmt.Sprintf("%s-%d-%d-%d.json", w.Prop.ID, st.Seed, st.Worker, len(w.found)))
	if err := WriteReplay(path, mc, mres); err != nil {
		st.ToolErrs = append(st.ToolErrs, "write replay: "+err.Error())
	}
	f.Replay = path
}

func outcome(r *Result) string {
	if r.Viol != nil {
		return "violation " + r.Viol.Signature()
	}
	if r.ToolErr != "" {
		return "tool error"
	}
	return "held"
}

// ReplayFile is the on-disk form of a failing (or any) case.
type ReplayFile struct {
	Harness   string           `json:"harness"`
	Case      *Case            `json:"case"`
	Violation *simrt.Violation `json:"violation"`
	Enabled   [][]int          `json:"enabled"`
	Steps     int              `json:"steps"`
	EventHash string           `json:"events_sha256"`
	Log       []string         `json:"event_log,omitempty"`
}

const harnessVersion = "simrt/1"

func WriteReplay(path string, c *Case, r *Result) error {
	rf := &ReplayFile{Harness: harnessVersion, Case: c, Violation: r.Viol, Enabled: r.Enabled, Steps: r.Steps, EventHash: r.Hash, Log: r.Log}
	b, err := json.MarshalIndent(rf, "", " ")
	if err != nil {
		return err
	}
	os.MkdirAll(filepath.Dir(path), 0o755)
	return os.WriteFile(path, b, 0o644)
}

// Minimise shrinks a failing explicit case while the violation signature
// stays the same. It returns the smallest case found, its result (recorded
// with enabled sets and log) and the number of executions spent.
func Minimise(t *testing.T, p *Property, c *Case, sig string, budget int) (*Case, *Result, int) {
	n := 0
	// also bounded in wall-clock time: a finding on a multi-megabyte case must
	// not hold its worker for the rest of the check
	deadline := time.Now().Add(30 * time.Second)
	try := func(x *Case) *Result {
		if n >= budget {
			return nil
		}
		if time.Now().After(deadline) {
			n = budget
			return nil
		}
		n++
		r := p.Run(t, x, RunOpts{})
		if r.ToolErr == "" && r.Sig() == sig {
			return r
		}
		return nil
	}
	best := c
	trim := func(x *Case, r *Result) *Case {
		// adopt the choices actually taken (normalised), trailing zeros cut
		y := *x
		ch := append([]int(nil), r.Choices...)
		for len(ch) > 0 && ch[len(ch)-1] == 0 {
			ch = ch[:len(ch)-1]
		}
		y.Sched.Choices = ch
		return &y
	}
	if r := try(best); r != nil {
		best = trim(best, r)
	} else {
		// not reproducible from the recorded choices: report as is
		r := p.Run(t, c, RunOpts{Record: true, KeepLog: true})
		return c, r, n + 1
	}
	// 1. simpler plans
	if p.Shrink != nil {
		for progress := true; progress && n < budget; {
			progress = false
			for _, cand := range p.Shrink(best) {
				cand.Sched = best.Sched
				if r := try(cand); r != nil {
					best = trim(cand, r)
					progress = true
					break
				}
			}
		}
	}
	// 2. fewer faults
	for i := 0; i < len(best.Faults) && n < budget; {
		cand := *best
		cand.Faults = append(append([]simrt.FaultSpec(nil), best.Faults[:i]...), best.Faults[i+1:]...)
		if r := try(&cand); r != nil {
			best = trim(&cand, r)
		} else {
			i++
		}
	}
	// 3. fewer preemptions: delta-debug the choice list towards zeros
	ch := best.Sched.Choices
	for size := (len(ch) + 1) / 2; size >= 1 && n < budget; size /= 2 {
		for lo := 0; lo < len(ch) && n < budget; lo += size {
			hi := lo + size
			if hi > len(ch) {
				hi = len(ch)
			}
			allZero := true
			for _, v := range ch[lo:hi] {
				if v != 0 {
					allZero = false
				}
			}
			if allZero {
				continue
			}
			cand := *best
			nc := append([]int(nil), ch...)
			for i := lo; i < hi; i++ {
				nc[i] = 0
			}
			cand.Sched.Choices = nc
			if r := try(&cand); r != nil {
				best = trim(&cand, r)
				ch = best.Sched.Choices
			}
		}
		if size == 1 {
			break
		}
	}
	// 4. plans again now that the schedule is simple
	if p.Shrink != nil {
		for progress := true; progress && n < budget; {
			progress = false
			for _, cand := range p.Shrink(best) {
				cand.Sched = best.Sched
				if r := try(cand); r != nil {
					best = trim(cand, r)
					progress = true
					break
				}
			}
		}
	}
	final := p.Run(t, best, RunOpts{Record: true, KeepLog: true})
	n++
	if final.Sig() != sig {
		// must not happen (determinism); fall back to the original
		r := p.Run(t, c, RunOpts{Record: true, KeepLog: true})
		return c, r, n + 1
	}
	return best, final, n
}

// RunWorker is the body of one worker process.
func RunWorker(t *testing.T, propID, tier string, seed uint64, worker, workers, units int, budget time.Duration, outPath, replayDir string) {
	p := registry[propID]
	if p == nil {
		t.Fatalf("unknown property %q", propID)
	}
	currentTier = tier
	start0 := time.Now()
	st := &Stats{Prop: propID, Seed: seed, Worker: worker, Probes: map[string]int{}, FaultsFired: map[string]int{},
		Strategies: map[string]int{}, Kinds: map[string]int{}}
	w := &Worker{T: t, Prop: p, Tier: tier, Stats: st, found: map[string]*Found{}, hashes: map[string]struct{}{}, replayDir: replayDir}
	if outPath != "" {
		st.HashFile = outPath + ".hashes"
		f, err := os.Create(st.HashFile)
		if err == nil {
			w.hashOut = f
			defer f.Close()
		}
	}
	if os.Getenv("VERIF_SELFTEST") != "" && outPath != "" {
		if f, err := os.Create(outPath + ".runlog"); err == nil {
			w.runlog = f
			defer f.Close()
		}
	}
	writeStats := func() {
		st.WallS = time.Since(start0).Seconds()
		sort.Slice(st.Found, func(i, j int) bool { return st.Found[i].Sig < st.Found[j].Sig })
		if outPath != "" {
			b, _ := json.MarshalIndent(st, "", " ")
			os.WriteFile(outPath, b, 0o644)
		}
	}
	stopWatch := startWatchdog(func(c *Case) {
		v := &simrt.Violation{Class: "hang", Site: "no-progress", Text: fmt.Sprintf("a case made no progress for %d s of wall-clock time (busy loop or block outside every simulated seam)", hangSeconds)}
		path := filepath.Join(replayDir, fmt.Sprintf("%s-%d-%d-hang.json", propID, seed, worker))
		WriteReplay(path, c, &Result{Viol: v})
		// where every goroutine of the process is, for whoever reads the report
		buf := make([]byte, 8<<20)
		os.WriteFile(strings.TrimSuffix(path, ".json")+".stacks.txt", buf[:runtime.Stack(buf, true)], 0o644)
		st.Found = append(st.Found, &Found{Sig: v.Signature(), Viol: v, Replay: path, Count: 1, First: w.unit})
		writeStats()
		cleanupScratch()
		os.Exit(0) // the driver reads the stats file; the stuck goroutine cannot be stopped
	})
	defer stopWatch()
	start := time.Now()
	for u := worker; u < units; u += workers {
		if budget > 0 && time.Since(start) > budget {
			break
		}
		if st.Units%2000 == 1999 {
			// Goroutines that the code under test leaves blocked for good (Map's
			// workers on its never-closed queue) stay with the process: stop
			// exploring before the machine runs out of memory.
			var ms runtime.MemStats
			runtime.ReadMemStats(&ms)
			if ms.Sys > memLimit {
				st.StoppedEarly = fmt.Sprintf("memory: %d MiB in use after %d units (limit %d MiB)", ms.Sys>>20, st.Units, memLimit>>20)
				break
			}
		}
		w.unit = u
		w.nrep = 0
		r := simrt.NewRNG(simrt.Mix(seed, uint64(u)))
		p.Explore(t, w, r)
		st.Units++
		if len(st.ToolErrs) >= 5 {
			break
		}
	}
	_ = start
	writeStats()
}

// RunReplay re-executes a replay file and reports whether the recorded
// violation reproduced (exit codes are decided by the caller).
func RunReplay(t *testing.T, path string) (reproduced bool, toolErr string) {
	b, err := os.ReadFile(path)
	if err != nil {
		return false, err.Error()
	}
	var rf ReplayFile
	if err := json.Unmarshal(b, &rf); err != nil {
		return false, err.Error()
	}
	p := registry[rf.Case.Prop]
	if p == nil {
		return false, "unknown property " + rf.Case.Prop
	}
	stopWatch := startWatchdog(func(c *Case) {
		fmt.Printf("replay: no progress for %d s of wall-clock time\n", hangSeconds)
		if rf.Violation != nil && rf.Violation.Class == "hang" {
			fmt.Println("REPLAY reproduced")
		} else {
			fmt.Println("REPLAY tool-error the replayed case hangs")
		}
		cleanupScratch()
		os.Exit(0)
	})
	defer stopWatch()
	res := p.Run(t, rf.Case, RunOpts{Record: true, KeepLog: true, Expect: rf.Enabled})
	if res.ToolErr != "" && strings.Contains(res.ToolErr, "replay diverged") {
		// the code under test differs from the one the file was recorded on:
		// the choice list is still a valid schedule, so run it unasserted
		fmt.Printf("replay: %s; re-running the choice list without the recorded enabled sets\n", res.ToolErr)
		res = p.Run(t, rf.Case, RunOpts{Record: true, KeepLog: true})
		rf.EventHash = ""
	}
	for _, l := range res.Log {
		fmt.Println("  " + l)
	}
	if res.ToolErr != "" {
		return false, res.ToolErr
	}
	fmt.Printf("replay: steps=%d events_sha256=%s (recorded %s)\n", res.Steps, res.Hash, rf.EventHash)
	if res.Viol != nil {
		fmt.Printf("replay: violation %s\n%s\n", res.Viol.Signature(), res.Viol.Text)
	}
	if rf.Violation == nil {
		return res.Viol != nil, ""
	}
	if res.Viol != nil && res.Viol.Signature() == rf.Violation.Signature() {
		if rf.EventHash != "" && res.Hash != rf.EventHash {
			return true, "violation reproduced but the event log differs from the recorded one"
		}
		return true, ""
	}
	return false, ""
}
