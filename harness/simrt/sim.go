// Package simrt is the deterministic simulator runtime: a cooperative
// scheduler that owns the decision "which goroutine proceeds next" for code
// whose synchronisation, goroutine and I/O operations have been woven with
// hook calls (see /verif/weave), a lock model, a happens-before race monitor,
// an I/O fault plan, and choice recording / replay.
//
// One Sim is one run. The scheduler is the root goroutine of a
// testing/synctest bubble: synctest.Wait tells it, exactly, when every other
// goroutine is parked at a hook, blocked inside a real channel/WaitGroup
// operation, or gone.
package simrt

import (
	"bytes"
	"crypto/sha256"
	"encoding/hex"
	"fmt"
	"io"
	"os"
	"reflect"
	"runtime"
	"sort"
	"strconv"
	"strings"
	"sync"
	"sync/atomic"
	"syscall"
	"testing"
	"testing/synctest"
)

// Kind of a hooked operation. The numeric values are part of the contract
// with the weaver (weave/main.go emits them as integer literals).
type Kind int

const (
	KSend    Kind = 1
	KRecv    Kind = 2
	KClose   Kind = 3
	KSelSend Kind = 4 // select { case ch <- v: ...; [default:] }
	KSelRecv Kind = 5 // select { case x = <-ch: ...; [default:] }
	KLock    Kind = 6
	KUnlock  Kind = 7
	KRLock   Kind = 8
	KRUnlock Kind = 9
	KWgAdd   Kind = 10
	KWgDone  Kind = 11
	KWgWait  Kind = 12
	KOnce    Kind = 13
	KAtomic  Kind = 14
	KSpawn   Kind = 15
	KStart   Kind = 16
	KIO      Kind = 17
	KYield   Kind = 18
	KClient  Kind = 19 // harness-level operation boundary (Invoke/Return)
	KRange   Kind = 20 // receive performed by a woven `for range ch`
	KAwait   Kind = 21 // harness client waiting for a Signal
	// sync.Cond is simulated, not executed: a waiter registers (CondAdd),
	// unlocks, parks here until a Signal/Broadcast notifies it, and locks.
	KCondWait      Kind = 22
	KCondSignal    Kind = 23
	KCondBroadcast Kind = 24
)

var kindNames = map[Kind]string{
	KSend: "send", KRecv: "recv", KClose: "close", KSelSend: "selsend", KSelRecv: "selrecv",
	KLock: "lock", KUnlock: "unlock", KRLock: "rlock", KRUnlock: "runlock",
	KWgAdd: "wgadd", KWgDone: "wgdone", KWgWait: "wgwait", KOnce: "once", KAtomic: "atomic",
	KSpawn: "spawn", KStart: "start", KIO: "io", KYield: "yield", KClient: "client", KRange: "recv", KAwait: "await",
	KCondWait: "condwait", KCondSignal: "condsignal", KCondBroadcast: "condbroadcast",
}

func (k Kind) String() string {
	if s, ok := kindNames[k]; ok {
		return s
	}
	return "kind" + strconv.Itoa(int(k))
}

type gstate int

const (
	gNew gstate = iota
	gParked
	gRunning
	gBlocked
	gExited
)

const (
	phPre  = 0
	phPost = 1
)

type pending struct {
	phase  int
	kind   Kind
	obj    uintptr
	keep   interface{}
	site   string
	aux    int
	ioKind string
	label  string
}

// G is one simulated goroutine.
type G struct {
	ID        int
	Name      string
	SpawnSite string
	Client    bool
	Parent    int

	goid  int64
	wake  chan struct{}
	state gstate
	pend  pending
	vc    VC

	chIdx int // index assigned to the channel op in flight

	condNotified bool // a Signal/Broadcast picked this waiter

	wasBlocked bool

	ioMode int
	ioErr  error

	stamp int

	Panicked  bool
	PanicText string
	PanicSite string
}

func (g *G) Exited() bool  { return g.state == gExited }
func (g *G) Blocked() bool { return g.state == gBlocked }
func (g *G) Parked() bool  { return g.state == gParked }

// StateString describes where the goroutine is (for deadlock reports).
func (g *G) StateString() string {
	switch g.state {
	case gNew:
		return "not started"
	case gParked:
		ph := "before"
		if g.pend.phase == phPost {
			ph = "after"
		}
		return fmt.Sprintf("runnable %s %s at %s", ph, g.pend.describe(), g.pend.site)
	case gRunning:
		return "running"
	case gBlocked:
		return fmt.Sprintf("blocked in %s at %s", g.pend.describe(), g.pend.site)
	case gExited:
		return "exited"
	}
	return "?"
}

func (p pending) describe() string {
	if p.kind == KIO {
		return "io:" + p.ioKind
	}
	if p.kind == KClient {
		return "client:" + p.label
	}
	if p.kind == KAwait {
		return "await:" + p.label
	}
	return p.kind.String()
}

// Violation is a property violation observed by the simulator or an oracle.
type Violation struct {
	Class string `json:"class"`
	Site  string `json:"site"`
	Text  string `json:"text"`
}

func (v *Violation) Signature() string { return v.Class + "@" + v.Site }

// Fault is the error type of every injected I/O failure.
type Fault struct {
	Kind    string
	Ordinal int
	After   bool
}

func (f *Fault) Error() string {
	m := "before"
	if f.After {
		m = "after"
	}
	return fmt.Sprintf("simrt: injected %s fault (%s) at I/O #%d", f.Kind, m, f.Ordinal)
}

// FaultSpec asks for the I/O operation with the given global ordinal to fail.
type FaultSpec struct {
	Ordinal int  `json:"ordinal"`
	After   bool `json:"after,omitempty"` // perform the real call, then report failure
	// As selects the identity of the injected error: "" = *simrt.Fault,
	// "unexpected-eof" = io.ErrUnexpectedEOF (a torn read), "enospc" and
	// "efbig" = *os.PathError wrapping the errno (a full disk / size limit).
	As string `json:"as,omitempty"`
	// Sticky: the condition persists (descriptor table full, disk full):
	// every later operation of the same kind fails in the same way.
	Sticky bool `json:"sticky,omitempty"`
}

// Unfaultable reports the I/O kinds no fault is injected into: the property
// lists creation, write, sync, seek and read failures; closing and removing
// are outside it.
func Unfaultable(kind string) bool {
	switch kind {
	case "close", "remove", "removeall", "rename", "chmod", "chdir":
		return true
	}
	return false
}

// IORecord describes one I/O operation executed in a run.
type IORecord struct {
	Ordinal int    `json:"ordinal"`
	Kind    string `json:"kind"`
	Site    string `json:"site"`
	G       int    `json:"g"`
	Faulted bool   `json:"faulted,omitempty"`
	Step    int    `json:"step"`
}

// Config of one run.
type Config struct {
	Chooser  Chooser
	MaxSteps int
	Faults   []FaultSpec
	KeepLog  bool // keep the textual event log (replay, self-test)
	Record   bool // keep the enabled set of every step (replay files)
	NoHB     bool // switch the happens-before monitor off
	// FaultKinds restricts which I/O kinds a fault may hit: a FaultSpec whose
	// ordinal lands on another kind (possible when a fault position learnt in
	// one schedule is paired with a different schedule) does not fire.
	FaultKinds map[string]bool
	// FaultAll: every kind may be hit except those Unfaultable reports.
	FaultAll bool
	Expect   [][]int // replay: expected enabled sets, checked step by step
}

// Sim is one simulated run.
type Sim struct {
	cfg Config

	mu       sync.Mutex
	gs       map[int64]*G
	byID     []*G
	arrivals []*G
	clients  []clientSpec

	cur   *G
	steps int

	locks   map[uintptr]*lockState
	chans   map[uintptr]*chanState
	wgs     map[uintptr]*VC
	atoms   map[uintptr]*VC
	conds   map[uintptr]*condState
	shadow  map[uintptr]*shadowWord
	labels  map[uintptr]int
	keepers []interface{}

	ioN      int
	IOLog    []IORecord
	faultAt  map[int]FaultSpec
	Fired    []IORecord
	Choices  []int
	Enabled  [][]int
	Log      []string
	hash     interface{ Write([]byte) (int, error) }
	hashSum  func() string
	marks    map[string]int
	Probes   map[string]int
	Viol     *Violation
	ToolErr  string
	Diverged bool

	Races     map[string]*Violation // every distinct race seen
	raceOrder []string

	yieldFields map[string]bool

	idChecks int
	paranoid bool

	signals map[string]*VC
	sticky  map[string]FaultSpec
}

type clientSpec struct {
	name string
	fn   func()
}

type lockState struct {
	owner   *G
	readers int
	vc      VC
}

// condState: the waiters of a sync.Cond in registration order (the order in
// which the runtime notifies them) and the clock of its notifications.
type condState struct {
	waiters []*G
	vc      VC
}

type chanState struct {
	cap       int
	sendClk   []VC
	recvClk   []VC
	closed    bool
	closeClk  VC
	recvDone  int
	sendsDone int
	weak      bool // a blocking multi-case select waited on it: FIFO matching unknown
}

// Current is the run hooks are dispatched to.
var current atomic.Pointer[Sim]

// flags are the woven packages' VerifOn variables, raised while a run is on.
var flags []*bool

// RegisterFlag registers a woven package's VerifOn variable.
func RegisterFlag(f *bool) { flags = append(flags, f) }

func setFlags(on bool) {
	for _, f := range flags {
		*f = on
	}
}

// New prepares a run.
func New(cfg Config) *Sim {
	if cfg.MaxSteps == 0 {
		cfg.MaxSteps = 20000
	}
	if cfg.Chooser == nil {
		cfg.Chooser = &RunToCompletion{}
	}
	h := sha256.New()
	s := &Sim{
		cfg:     cfg,
		gs:      map[int64]*G{},
		locks:   map[uintptr]*lockState{},
		chans:   map[uintptr]*chanState{},
		wgs:     map[uintptr]*VC{},
		atoms:   map[uintptr]*VC{},
		conds:   map[uintptr]*condState{},
		shadow:  map[uintptr]*shadowWord{},
		labels:  map[uintptr]int{},
		faultAt: map[int]FaultSpec{},
		marks:   map[string]int{},
		signals: map[string]*VC{},
		Probes:  map[string]int{},
		Races:   map[string]*Violation{},
		hash:    h,
	}
	s.hashSum = func() string { return hex.EncodeToString(h.Sum(nil)) }
	s.paranoid = os.Getenv("VERIF_PARANOID") != ""
	for _, f := range cfg.Faults {
		s.faultAt[f.Ordinal] = f
	}
	return s
}

// Client registers a harness goroutine to be started when the run begins.
func (s *Sim) Client(name string, fn func()) {
	s.clients = append(s.clients, clientSpec{name, fn})
}

// Steps returns the number of scheduling decisions taken.
func (s *Sim) Steps() int { return s.steps }

// EventHash is the hash over the full event log of the run.
func (s *Sim) EventHash() string { return s.hashSum() }

// Goroutines lists all goroutines of the run by logical id.
func (s *Sim) Goroutines() []*G { return s.byID }

// Probe counts a reach probe.
func (s *Sim) Probe(name string) {
	s.mu.Lock()
	s.Probes[name]++
	s.mu.Unlock()
}

// Mark records that the calling client passed a named point (used by
// strategies that act relative to a point in the client script).
func (s *Sim) Mark(name string) {
	s.mu.Lock()
	s.marks[name] = s.steps
	s.mu.Unlock()
}

// MarkedAt returns the step at which the mark was set, or -1.
func (s *Sim) MarkedAt(name string) int {
	if v, ok := s.marks[name]; ok {
		return v
	}
	return -1
}

// Fail records an oracle violation from harness code (first one wins).
func (s *Sim) Fail(class, site, text string) {
	s.mu.Lock()
	s.failLocked(class, site, text)
	s.mu.Unlock()
}

func (s *Sim) failLocked(class, site, text string) {
	if s.Viol == nil {
		s.Viol = &Violation{Class: class, Site: site, Text: text}
	}
}

func (s *Sim) toolErr(format string, a ...interface{}) {
	if s.ToolErr == "" {
		s.ToolErr = fmt.Sprintf(format, a...)
	}
}

// goid parses the current goroutine's id from its stack header.
func goid() int64 {
	var buf [64]byte
	n := runtime.Stack(buf[:], false)
	// "goroutine 123 [running...
	b := buf[:n]
	b = b[len("goroutine "):]
	i := bytes.IndexByte(b, ' ')
	id, _ := strconv.ParseInt(string(b[:i]), 10, 64)
	return id
}

// lookup identifies the calling client goroutine (see cur in hooks.go).
func (s *Sim) lookup() *G {
	g := s.cur
	if g == nil || g.state != gRunning {
		return nil
	}
	return g
}

func objKey(obj interface{}) uintptr {
	if obj == nil {
		return 0
	}
	v := reflect.ValueOf(obj)
	switch v.Kind() {
	case reflect.Chan, reflect.Ptr, reflect.UnsafePointer, reflect.Map, reflect.Func, reflect.Slice:
		return v.Pointer()
	}
	return 0
}

// park registers the event and blocks the calling goroutine until the
// scheduler releases it.
func (s *Sim) park(g *G, p pending) {
	s.mu.Lock()
	g.pend = p
	g.state = gParked
	s.arrivals = append(s.arrivals, g)
	s.mu.Unlock()
	<-g.wake
}

// ---------------------------------------------------------------------------
// scheduler

// Run executes the run inside a synctest bubble and returns when it is over:
// all clients finished and nothing is runnable, or a violation / tool error
// stopped it.
func (s *Sim) Run(t *testing.T) {
	if !current.CompareAndSwap(nil, s) {
		panic("simrt: concurrent runs in one process")
	}
	defer current.Store(nil)
	setFlags(true)
	defer setFlags(false)
	func() {
		defer func() {
			if r := recover(); r != nil {
				msg := fmt.Sprint(r)
				if strings.Contains(msg, "deadlock: main bubble goroutine has exited") {
					return // goroutines left behind by an aborted or leaky run
				}
				s.toolErr("bubble panic: %v", msg)
			}
		}()
		synctest.Test(t, func(t *testing.T) { s.loop() })
	}()
	// A race is reported only if the run produced nothing more concrete
	// (lost value, panic, deadlock): the concrete outcome is the better replay.
	if s.Viol == nil && len(s.raceOrder) > 0 {
		s.Viol = s.Races[s.raceOrder[0]]
	}
}

func (s *Sim) loop() {
	root := &G{ID: 0, Name: "root", state: gRunning}
	_ = root
	for _, c := range s.clients {
		s.startClient(c)
	}
	for {
		synctest.Wait()
		s.mu.Lock()
		s.collect()
		if s.Viol != nil || s.ToolErr != "" {
			s.drainUnlocksLocked()
			s.mu.Unlock()
			return
		}
		en := s.enabledLocked()
		if len(en) == 0 {
			s.finishLocked()
			s.mu.Unlock()
			return
		}
		if s.steps >= s.cfg.MaxSteps {
			s.failLocked("livelock", s.livelockSite(), fmt.Sprintf("no termination within %d steps", s.cfg.MaxSteps))
			s.drainUnlocksLocked()
			s.mu.Unlock()
			return
		}
		if s.cfg.Expect != nil && s.steps < len(s.cfg.Expect) {
			if !sameIDs(en, s.cfg.Expect[s.steps]) {
				s.Diverged = true
				s.toolErr("replay diverged at step %d: enabled %v, recorded %v", s.steps, ids(en), s.cfg.Expect[s.steps])
				s.mu.Unlock()
				return
			}
		}
		def := en[0]
		if s.cur != nil {
			for i, g := range en {
				if g == s.cur {
					def = g
					// a goroutine that yielded explicitly (runtime.Gosched,
					// time.Sleep) hands over: the default is its successor
					if g.pend.phase == phPre && g.pend.kind == KYield && g.pend.label == "gosched" && len(en) > 1 {
						def = en[(i+1)%len(en)]
					}
				}
			}
		}
		idx := s.cfg.Chooser.Choose(s, en, def)
		if idx < 0 || idx >= len(en) {
			idx = 0
		}
		if s.steps > s.cfg.MaxSteps/2 && len(en) > 1 {
			// Past half the step budget every strategy becomes a fair random
			// walk (a pure function of the step count, so replayable): an
			// unfair schedule starving a goroutine that others spin-wait for
			// must not be mistaken for a livelock of the code.
			x := uint64(s.steps)*0x9e3779b97f4a7c15 + 0x7f4a7c15
			x ^= x >> 29
			x *= 0xbf58476d1ce4e5b9
			x ^= x >> 32
			idx = int(x % uint64(len(en)))
		}
		g := en[idx]
		c := 0
		if g != def {
			c = idx + 1
		}
		s.Choices = append(s.Choices, c)
		if s.cfg.Record {
			s.Enabled = append(s.Enabled, ids(en))
		}
		s.release(g)
		s.mu.Unlock()
	}
}

// drainUnlocksLocked: a run that is stopped abandons its goroutines where
// they are parked. One that is parked inside a critical section (after the
// hook that follows Lock, before an unlock) would keep a real mutex locked for
// the rest of the process, and package-level mutexes outlive the run: the next
// run's lock model would believe such a mutex free and release a goroutine
// into a real Lock that never returns (which synctest does not count as
// durably blocked, so the simulator itself would hang). So every goroutine
// that owns a lock, or is parked before an unlock, is let run on (lowest id
// first, only while it is enabled) until it owns none; it parks again at its
// next hook. Called and returns with s.mu held.
func (s *Sim) drainUnlocksLocked() {
	for i := 0; i < 512; i++ {
		owners := map[*G]bool{}
		for _, ls := range s.locks {
			if ls.owner != nil {
				owners[ls.owner] = true
			}
		}
		var g *G
		for _, x := range s.enabledLocked() { // by id
			p := &x.pend
			if owners[x] || (p.phase == phPre && (p.kind == KUnlock || p.kind == KRUnlock)) {
				g = x
				break
			}
		}
		if g == nil {
			return
		}
		s.release(g)
		s.mu.Unlock()
		synctest.Wait()
		s.mu.Lock()
		s.collect()
	}
}

func ids(gs []*G) []int {
	r := make([]int, len(gs))
	for i, g := range gs {
		r[i] = g.ID
	}
	return r
}

func sameIDs(gs []*G, want []int) bool {
	if len(gs) != len(want) {
		return false
	}
	for i, g := range gs {
		if g.ID != want[i] {
			return false
		}
	}
	return true
}

func (s *Sim) livelockSite() string {
	if s.cur != nil {
		return s.cur.pend.site
	}
	return ""
}

func (s *Sim) startClient(c clientSpec) {
	s.mu.Lock()
	g := s.newG(c.name, "client:"+c.name, nil)
	g.Client = true
	s.mu.Unlock()
	fn := c.fn
	go func() {
		s.bind(g)
		defer func() {
			r := recover()
			s.exit(g, r, 2)
		}()
		s.park(g, pending{phase: phPre, kind: KStart, site: g.SpawnSite})
		fn()
	}()
}

func (s *Sim) newG(name, site string, parent *G) *G {
	g := &G{ID: len(s.byID) + 1, Name: name, SpawnSite: site, wake: make(chan struct{}, 1), state: gNew}
	if parent != nil {
		g.Parent = parent.ID
		g.vc = parent.vc.copy()
		parent.vc.tick(parent.ID)
	}
	g.vc.tick(g.ID)
	s.byID = append(s.byID, g)
	return g
}

func (s *Sim) bind(g *G) {
	id := goid()
	s.mu.Lock()
	g.goid = id
	s.gs[id] = g
	s.mu.Unlock()
}

// exit records the end of a goroutine; r is the recovered panic value (nil if
// it returned normally).
func (s *Sim) exit(g *G, r interface{}, skip int) {
	var site, stack string
	if r != nil {
		site, stack = panicSite()
	}
	s.mu.Lock()
	g.state = gExited
	delete(s.gs, g.goid)
	if r != nil {
		if _, ok := r.(abortRun); !ok {
			g.Panicked = true
			g.PanicText = fmt.Sprint(r)
			g.PanicSite = site
			s.logf("g%d panic %s %q", g.ID, site, g.PanicText)
			s.failLocked("panic", site, fmt.Sprintf("goroutine %d (%s) panicked: %v\n%s", g.ID, g.Name, r, stack))
		}
	} else {
		s.logf("g%d exit", g.ID)
	}
	s.mu.Unlock()
}

type abortRun struct{}

// panicSite returns the innermost non-runtime, non-simrt frame of the
// panicking stack (we are called from a deferred function while panicking).
func panicSite() (string, string) {
	pcs := make([]uintptr, 64)
	n := runtime.Callers(3, pcs)
	frames := runtime.CallersFrames(pcs[:n])
	site := ""
	var sb strings.Builder
	for {
		f, more := frames.Next()
		fn := f.Function
		if fn != "" {
			fmt.Fprintf(&sb, "  %s (%s:%d)\n", fn, shortFile(f.File), f.Line)
		}
		if site == "" && fn != "" && !strings.HasPrefix(fn, "runtime.") && !strings.Contains(fn, "/simrt.") &&
			!strings.HasPrefix(fn, "reflect.") && !strings.Contains(fn, ".vh") && !strings.Contains(fn, ".Verif") {
			// strip the closure suffixes the weaver adds (".func1.1") so that
			// the site names the enclosing source function.
			site = trimFunc(fn)
		}
		if !more {
			break
		}
	}
	return site, sb.String()
}

func shortFile(f string) string {
	if i := strings.LastIndex(f, "/"); i >= 0 {
		if j := strings.LastIndex(f[:i], "/"); j >= 0 {
			return f[j+1:]
		}
	}
	return f
}

func trimFunc(fn string) string {
	if i := strings.LastIndex(fn, "/"); i >= 0 {
		fn = fn[i+1:]
	}
	// drop ".funcN(.M)*" suffixes
	for {
		i := strings.LastIndex(fn, ".")
		if i < 0 {
			break
		}
		suf := fn[i+1:]
		if strings.HasPrefix(suf, "func") || isDigits(suf) || suf == "gowrap1" || strings.HasPrefix(suf, "gowrap") || strings.HasPrefix(suf, "deferwrap") {
			fn = fn[:i]
			continue
		}
		break
	}
	return fn
}

func isDigits(s string) bool {
	if s == "" {
		return false
	}
	for _, c := range s {
		if c < '0' || c > '9' {
			return false
		}
	}
	return true
}

func (s *Sim) logf(format string, a ...interface{}) {
	line := fmt.Sprintf(format, a...)
	s.hash.Write([]byte(line))
	s.hash.Write([]byte{'\n'})
	if s.cfg.KeepLog {
		s.Log = append(s.Log, line)
	}
}

func (s *Sim) label(key uintptr, keep interface{}) int {
	if key == 0 {
		return 0
	}
	if l, ok := s.labels[key]; ok {
		return l
	}
	l := len(s.labels) + 1
	s.labels[key] = l
	s.keepers = append(s.keepers, keep) // pin: an address is never reused within a run
	return l
}

// collect processes everything that happened during the last step.
func (s *Sim) collect() {
	arr := s.arrivals
	s.arrivals = nil
	sort.Slice(arr, func(i, j int) bool { return arr[i].ID < arr[j].ID })
	seen := map[*G]bool{}
	// A select case that was taken registers its operation only now (a select
	// does not know beforehand which case it will take). Register all of them
	// before any completion is processed: the peer of a hand-off arrives in the
	// same step and must find the operation it was matched with.
	for _, g := range arr {
		p := &g.pend
		if p.phase == phPost && p.aux == 1 && (p.kind == KSelSend || p.kind == KSelRecv) {
			cs := s.chanOf(p)
			if p.kind == KSelSend {
				g.chIdx = len(cs.sendClk)
				cs.sendClk = append(cs.sendClk, g.vc.copy())
			} else {
				g.chIdx = len(cs.recvClk)
				cs.recvClk = append(cs.recvClk, g.vc.copy())
			}
			g.vc.tick(g.ID)
		}
	}
	for _, g := range arr {
		seen[g] = true
		s.onArrive(g)
	}
	// a goroutine that was blocked inside an operation and has now arrived was
	// woken by another goroutine's operation (direct hand-off, close, Done)
	for _, g := range arr {
		if g.wasBlocked {
			g.wasBlocked = false
			s.Probes["blocked_goroutine_woken_by_peer"]++
		}
	}
	for _, g := range s.byID {
		if g.state == gRunning && !seen[g] {
			g.state = gBlocked
			g.wasBlocked = true
			s.logf("g%d blocks in %s#%d", g.ID, g.pend.describe(), s.label(g.pend.obj, g.pend.keep))
		}
	}
}

func (s *Sim) onArrive(g *G) {
	p := &g.pend
	s.logf("g%d arrive %d %s#%d %s aux=%d", g.ID, p.phase, p.describe(), s.label(p.obj, p.keep), p.site, p.aux)
	if p.phase == phPre {
		return
	}
	switch p.kind {
	case KSend:
		s.sendDone(g, p.obj, g.chIdx)
	case KRecv, KRange:
		s.recvDone(g, p.obj, g.chIdx)
	case KSelSend:
		if p.aux == 1 {
			s.sendDone(g, p.obj, g.chIdx) // registered in collect
		}
	case KSelRecv:
		if p.aux == 1 {
			s.recvDone(g, p.obj, g.chIdx)
		}
	case KLock, KOnce:
		ls := s.lockOf(p.obj)
		g.vc.join(ls.vc)
		if p.kind == KOnce {
			// Do returned: release.
			ls.vc = g.vc.copy()
			g.vc.tick(g.ID)
			ls.owner = nil
		}
	case KRLock:
		ls := s.lockOf(p.obj)
		g.vc.join(ls.vc)
	case KUnlock:
		ls := s.lockOf(p.obj)
		ls.owner = nil
	case KRUnlock:
		ls := s.lockOf(p.obj)
		if ls.readers > 0 {
			ls.readers--
		}
	case KWgWait:
		if vc := s.wgs[p.obj]; vc != nil {
			g.vc.join(*vc)
		}
	case KClient:
		g.stamp = 2*s.steps + 1
	}
}

func (s *Sim) chanOf(p *pending) *chanState {
	cs := s.chans[p.obj]
	if cs == nil {
		cs = &chanState{}
		if p.keep != nil {
			v := reflect.ValueOf(p.keep)
			if v.Kind() == reflect.Chan && !v.IsNil() {
				cs.cap = v.Cap()
			}
		}
		s.chans[p.obj] = cs
		s.label(p.obj, p.keep)
	}
	return cs
}

func (s *Sim) condOf(p *pending) *condState {
	cs := s.conds[p.obj]
	if cs == nil {
		cs = &condState{}
		s.conds[p.obj] = cs
		s.label(p.obj, p.keep)
	}
	return cs
}

func (s *Sim) lockOf(k uintptr) *lockState {
	ls := s.locks[k]
	if ls == nil {
		ls = &lockState{}
		s.locks[k] = ls
	}
	return ls
}

func (s *Sim) sendDone(g *G, key uintptr, idx int) {
	cs := s.chans[key]
	if cs == nil {
		return
	}
	cs.sendsDone++
	if cs.weak {
		for _, c := range cs.recvClk {
			g.vc.join(c)
		}
		return
	}
	// the (idx-cap)-th receive is synchronised before completion of this send
	j := idx - cs.cap
	if cs.cap == 0 {
		j = idx
	}
	if j >= 0 && j < len(cs.recvClk) {
		g.vc.join(cs.recvClk[j])
	}
}

func (s *Sim) recvDone(g *G, key uintptr, idx int) {
	cs := s.chans[key]
	if cs == nil {
		return
	}
	cs.recvDone++
	if cs.weak {
		for _, c := range cs.sendClk {
			g.vc.join(c)
		}
		if cs.closed {
			g.vc.join(cs.closeClk)
		}
		return
	}
	if idx < len(cs.sendClk) {
		g.vc.join(cs.sendClk[idx])
	} else if cs.closed {
		g.vc.join(cs.closeClk)
	} else {
		s.toolErr("simrt: receive #%d completed on channel #%d with %d sends and no close", idx, s.labels[key], len(cs.sendClk))
	}
}

// enabledLocked lists the goroutines that may be released now, by id.
func (s *Sim) enabledLocked() []*G {
	var en []*G
	for _, g := range s.byID {
		if g.state != gParked {
			continue
		}
		p := &g.pend
		if p.phase == phPre {
			switch p.kind {
			case KLock, KOnce:
				ls := s.lockOf(p.obj)
				if ls.owner != nil || ls.readers > 0 {
					continue
				}
			case KRLock:
				ls := s.lockOf(p.obj)
				if ls.owner != nil {
					continue
				}
			case KAwait:
				if s.signals[p.label] == nil {
					continue
				}
			case KCondWait:
				if !g.condNotified {
					continue
				}
			}
		}
		en = append(en, g)
	}
	return en
}

// Heartbeat counts scheduling decisions of all runs of the process: a case
// that is taking long but still takes steps is not hung.
var Heartbeat atomic.Int64

// release lets g proceed: bookkeeping for the operation it is about to enter.
func (s *Sim) release(g *G) {
	p := &g.pend
	s.steps++
	Heartbeat.Add(1)
	s.logf("step %d run g%d", s.steps, g.ID)
	if p.phase == phPre {
		switch p.kind {
		case KSend:
			cs := s.chanOf(p)
			g.chIdx = len(cs.sendClk)
			cs.sendClk = append(cs.sendClk, g.vc.copy())
			g.vc.tick(g.ID)
		case KRecv, KRange:
			cs := s.chanOf(p)
			g.chIdx = len(cs.recvClk)
			cs.recvClk = append(cs.recvClk, g.vc.copy())
			g.vc.tick(g.ID)
		case KSelSend, KSelRecv:
			s.chanOf(p)
		case KClose:
			cs := s.chanOf(p)
			cs.closed = true
			cs.closeClk = g.vc.copy()
			g.vc.tick(g.ID)
		case KLock, KOnce:
			s.lockOf(p.obj).owner = g
		case KRLock:
			s.lockOf(p.obj).readers++
		case KUnlock:
			ls := s.lockOf(p.obj)
			ls.vc = g.vc.copy()
			g.vc.tick(g.ID)
		case KRUnlock:
			ls := s.lockOf(p.obj)
			ls.vc.join(g.vc)
			g.vc.tick(g.ID)
		case KWgAdd, KWgDone:
			vc := s.wgs[p.obj]
			if vc == nil {
				vc = &VC{}
				s.wgs[p.obj] = vc
				s.label(p.obj, p.keep)
			}
			vc.join(g.vc)
			g.vc.tick(g.ID)
		case KAtomic:
			vc := s.atoms[p.obj]
			if vc == nil {
				vc = &VC{}
				s.atoms[p.obj] = vc
				s.label(p.obj, p.keep)
			}
			g.vc.join(*vc)
			*vc = g.vc.copy()
			g.vc.tick(g.ID)
		case KCondSignal, KCondBroadcast:
			cs := s.condOf(p)
			cs.vc.join(g.vc)
			g.vc.tick(g.ID)
			n := len(cs.waiters)
			if p.kind == KCondSignal && n > 1 {
				n = 1
			}
			for _, w := range cs.waiters[:n] {
				w.condNotified = true
			}
			cs.waiters = cs.waiters[n:]
		case KCondWait:
			g.vc.join(s.condOf(p).vc)
			g.condNotified = false
		case KIO:
			ord := s.ioN
			s.ioN++
			rec := IORecord{Ordinal: ord, Kind: p.ioKind, Site: p.site, G: g.ID, Step: s.steps}
			g.ioMode, g.ioErr = 0, nil
			allowed := s.cfg.FaultKinds == nil || s.cfg.FaultKinds[p.ioKind]
			if s.cfg.FaultAll {
				allowed = !Unfaultable(p.ioKind)
			}
			f, ok := s.faultAt[ord]
			if !ok && allowed {
				if sf, persists := s.sticky[p.ioKind]; persists {
					f, ok = sf, true
				}
			}
			if ok && allowed {
				if f.Sticky {
					if s.sticky == nil {
						s.sticky = map[string]FaultSpec{}
					}
					s.sticky[p.ioKind] = f
				}
				rec.Faulted = true
				g.ioErr = &Fault{Kind: p.ioKind, Ordinal: ord, After: f.After}
				switch f.As {
				case "unexpected-eof":
					g.ioErr = io.ErrUnexpectedEOF
				case "enospc":
					g.ioErr = &os.PathError{Op: p.ioKind, Path: "simulated", Err: syscall.ENOSPC}
				case "efbig":
					g.ioErr = &os.PathError{Op: p.ioKind, Path: "simulated", Err: syscall.EFBIG}
				case "emfile":
					g.ioErr = &os.PathError{Op: p.ioKind, Path: "simulated", Err: syscall.EMFILE}
				}
				if f.After {
					g.ioMode = 2
				} else {
					g.ioMode = 1
				}
				s.Fired = append(s.Fired, rec)
				s.logf("fault io#%d %s after=%v", ord, p.ioKind, f.After)
			}
			s.IOLog = append(s.IOLog, rec)
		case KClient:
			g.stamp = 2 * s.steps
		case KAwait:
			if vc := s.signals[p.label]; vc != nil {
				g.vc.join(*vc)
			}
		}
	}
	if p.phase == phPre && p.kind == KStart && !g.Client {
		for _, o := range s.byID {
			if o != g && o.SpawnSite == g.SpawnSite && o.state == gExited {
				s.Probes["goroutine_started_after_sibling_exited"]++
				break
			}
		}
	}
	g.state = gRunning
	s.cur = g
	g.wake <- struct{}{}
}

// AliveAt counts goroutines spawned at a site with the given prefix that
// have not exited (for reach probes evaluated by clients).
func (s *Sim) AliveAt(sitePrefix string) int {
	s.mu.Lock()
	defer s.mu.Unlock()
	n := 0
	for _, g := range s.byID {
		if !g.Client && strings.HasPrefix(g.SpawnSite, sitePrefix) && g.state != gExited {
			n++
		}
	}
	return n
}

// finishLocked is called when nothing is runnable any more.
func (s *Sim) finishLocked() {
	var stuck []string
	clientStuck := false
	for _, g := range s.byID {
		if g.state == gExited {
			continue
		}
		stuck = append(stuck, fmt.Sprintf("g%d(%s): %s", g.ID, g.Name, g.StateString()))
		if g.Client {
			clientStuck = true
		}
	}
	if clientStuck {
		site := ""
		for _, g := range s.byID {
			if g.Client && g.state != gExited {
				site = g.pend.describe() + "@" + g.pend.site
				break
			}
		}
		s.failLocked("deadlock", site, "no goroutine can proceed:\n  "+strings.Join(stuck, "\n  "))
	}
	s.logf("end steps=%d", s.steps)
}

// Stuck lists goroutines that had not exited when the run ended.
func (s *Sim) Stuck() []*G {
	var r []*G
	for _, g := range s.byID {
		if g.state != gExited {
			r = append(r, g)
		}
	}
	return r
}

// ---------------------------------------------------------------------------
// client-side API (harness goroutines)

// Invoke is a yield point marking the start of a client operation; it returns
// the global event stamp at which the operation really started.
func (s *Sim) Invoke(label string) int {
	g := s.lookup()
	if g == nil {
		return 0
	}
	s.park(g, pending{phase: phPre, kind: KClient, site: label, label: label})
	return g.stamp
}

// Return is a yield point marking the end of a client operation; it returns
// the stamp at which the operation had completed.
func (s *Sim) Return(label string) int {
	g := s.lookup()
	if g == nil {
		return 0
	}
	s.park(g, pending{phase: phPost, kind: KClient, site: label, label: label})
	return g.stamp
}

// Signal and Await synchronise harness clients with each other. Clients must
// not use raw channels or locks for that: a client woken outside the
// scheduler's control would run concurrently with the released goroutine.
func (s *Sim) Signal(name string) {
	g := s.lookup()
	s.mu.Lock()
	vc := VC{}
	if g != nil {
		vc = g.vc.copy()
		g.vc.tick(g.ID)
	}
	s.signals[name] = &vc
	s.mu.Unlock()
}

func (s *Sim) Await(name string) {
	g := s.lookup()
	if g == nil {
		return
	}
	s.park(g, pending{phase: phPre, kind: KAwait, site: "await:" + name, label: name})
}

// Abort ends the calling client goroutine without counting as a panic.
func Abort() { panic(abortRun{}) }
