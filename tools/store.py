import json, os, re, shutil, sys, glob
agents = sys.argv[1:]
W3={'W3a':'C12','W3b':'C19','W3c':'C13','W3d':'C01','W3e':'C02','W3f':'C04'}
prop_of = lambda a: W3.get(a, a[3:6] if a.startswith('W10') or a.startswith('W11') or a.startswith('W12') or a.startswith('W13') or a.startswith('W14') or a.startswith('W15') or a.startswith('W16') or a.startswith('W17') else (a[2:5] if a[:2] in ('W4','W5','W6','W7','W8','W9') else a[:3]))
for a in agents:
    for d in sorted(glob.glob('/tmp/seedout/%s/change*' % a)):
        n = d[-1]
        if not os.path.exists(d + '/patch.diff') or not os.path.exists(d + '/confirm.log'):
            continue
        sid = '%s-%s' % (a, n)
        dst = '/verif/seeded/' + sid
        os.makedirs(dst, exist_ok=True)
        for f in ('patch.diff', 'demo_test.go', 'README.md'):
            if os.path.exists(d + '/' + f):
                shutil.copy(d + '/' + f, dst + '/' + f)
        readme = open(d + '/README.md', errors='replace').read() if os.path.exists(d + '/README.md') else ''
        title = readme.strip().split('\n')[0].lstrip('# ').strip() if readme else ''
        needs = ''
        m = re.search(r'(?is)(what it needs[^\n]*\n)(.*?)(\n## |\Z)', readme)
        if m:
            needs = ' '.join(m.group(2).split())[:700]
        files = [l[6:].strip() for l in open(d + '/patch.diff') if l.startswith('+++ b/')]
        det = []
        for out in sorted(glob.glob(d + '/check_*.out')):
            txt = open(out, errors='replace').read()
            prop, tier = os.path.basename(out)[6:-4].split('.')
            sigs = re.findall(r'^violation (\S+) x(\d+)', txt, re.M)
            runs = re.search(r': (\d+) runs', txt)
            det.append({'check': './check %s %s' % (prop, tier), 'detected': bool(sigs), 'runs': int(runs.group(1)) if runs else None,
                        'signatures': {s: int(c) for s, c in sigs}})
        conf = open(d + '/confirm.log', errors='replace').read()
        meta = {
            'id': sid, 'property': prop_of(a), 'title': title, 'files_changed': files,
            'needs_to_manifest': needs,
            'base_commit': '/repo main at the time of the wave (after the fix: commits recorded in KNOWN_FINDINGS.txt); the patch applies to /repo HEAD',
            'confirmed_by_me': {
                'how': 'scratch worktree of /repo; /tmp/seedout/confirm.sh: (1) clean tree + demo passes, (2) patch applies, (3) go build ./..., (4) existing suite of ./io ./morass ./concurrent ./align/pals ./seq ./alphabet ./feat passes with the patch, (5) demo fails with the patch',
                'result': 'clean+demo pass, apply ok, build ok, existing suite pass, mutated+demo FAIL',
            },
            'checks_run_against_it': det,
        }
        json.dump(meta, open(dst + '/meta.json', 'w'), indent=1)
        print(sid, 'stored;', 'detected' if any(x['detected'] for x in det) else 'NOT DETECTED')
