package props

import (
	"fmt"
	"testing"

	"github.com/biogo/biogo/concurrent"

	"verif/harness/simrt"
)

// TestSimLazily exercises the simulator's handling of a select with several
// communication cases (concurrent.Lazily is the only one in the woven
// packages). No listed property depends on Lazily; this is a test of the
// machinery: values arrive in order under every schedule and nothing the
// simulator cannot model is reached.
func TestSimLazily(t *testing.T) {
	blocking := 0
	for seed := uint64(1); seed <= 300; seed++ {
		r := simrt.NewRNG(seed)
		sim := simrt.New(simrt.Config{Chooser: MakeChooser(PickStrategy(r, 60, []string{"lazy.go:"}, nil)), MaxSteps: 4000, KeepLog: true})
		var got []int
		sim.Client("consumer", func() {
			reaper := make(chan struct{})
			next := concurrent.Lazily(func(state ...interface{}) (interface{}, concurrent.State) {
				n := state[0].(int)
				return n, concurrent.State{n + 1}
			}, int(seed%3), reaper, 0)
			for i := 0; i < 5; i++ {
				got = append(got, next().(int))
			}
			sim.CloseChan(reaper, func() { close(reaper) })
		})
		sim.Run(t)
		if sim.ToolErr != "" {
			for _, l := range sim.Log {
				t.Log(l)
			}
			t.Fatalf("seed %d: tool error %s", seed, sim.ToolErr)
		}
		if sim.Viol != nil {
			t.Fatalf("seed %d: %s: %s", seed, sim.Viol.Signature(), sim.Viol.Text)
		}
		if fmt.Sprint(got) != "[0 1 2 3 4]" {
			t.Fatalf("seed %d: got %v", seed, got)
		}
		blocking += sim.Probes["blocking_multi_case_select"]
	}
	if blocking == 0 {
		t.Fatal("the blocking path of the multi-case select was never taken")
	}
	t.Logf("blocking multi-case selects: %d", blocking)
}
