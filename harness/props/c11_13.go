package props

import (
	"encoding/json"
	"fmt"
	"strings"
	"testing"

	"verif/harness/simrt"
)

func marshalPlan(pl interface{}) json.RawMessage {
	b, _ := json.Marshal(pl)
	return b
}

// oddNames sometimes gives the sorter a prefix and a parent directory with
// blanks or glob metacharacters: legal file names, handed to ioutil.TempDir.
func oddNames(r *simrt.RNG, pl *MorassPlan) {
	if r.Intn(8) != 0 {
		return
	}
	pl.Prefix = []string{"v m", "vm[1]", "a?b", "x*y", "[a-z]", "vm{1}", "q\\w"}[r.Intn(7)]
	if r.Bool() {
		pl.DirName = []string{"scratch [1]", "a b", "q?", "*star*", "[x]"}[r.Intn(5)]
	}
}

func genKeys(r *simrt.RNG, n int) []int {
	ks := make([]int, n)
	span := r.Pick(3, 10, 1000)
	for i := range ks {
		ks[i] = r.Intn(span)
	}
	return ks
}

func cycleCount(r *simrt.RNG, c int) int {
	switch r.Intn(9) {
	case 0:
		return 0
	case 1:
		return 1
	case 2:
		return maxInt(c-1, 0)
	case 3:
		return c
	case 4:
		return c + 1
	case 5:
		return 2 * c
	case 6:
		return 2*c + 1
	case 7:
		return minInt(3*c+r.Intn(2*c+1), 260)
	}
	return r.Intn(2*c + 2)
}

func minInt(a, b int) int {
	if a < b {
		return a
	}
	return b
}

// ---------------------------------------------------------------------------
// C11: usage histories against the reference model (fault-free)

func genC11(r *simrt.RNG) *Case {
	pl := MorassPlan{
		Chunk:     r.Pick(1, 2, 3, 4, 5, 6, 7, 8, 8, 100),
		Struct:    r.Bool(),
		AutoClear: r.Bool(),
		CleanUp:   true,
	}
	if pl.Struct && r.Intn(3) == 0 {
		pl.Payload = r.Pick(1, 16, 700)
	}
	pl.Concurrent = r.Intn(4) == 0
	if r.Intn(10) == 0 {
		pl.Reg = true // an element type the application registered with gob itself
	}
	oddNames(r, &pl)
	if r.Intn(25) == 0 {
		pl.Twin, pl.Reg, pl.Struct = true, false, true
	}
	bigChunk := rare(r, 150)
	if bigChunk {
		pl.Chunk = r.Pick(1025, 1500, 3000) // "any in-memory chunk size"
	}
	nc := r.Range(1, 4)
	if rare(r, 12) {
		nc = r.Range(5, 9) // state that only goes wrong after several cycles
	}
	long := rare(r, 40) && pl.Chunk < 100
	if long {
		nc = r.Range(17, 40) // slow leaks: many short cycles on one sorter
	}
	if pl.Chunk == 100 {
		nc = r.Range(1, 2)
	}
	if bigChunk {
		nc, long = 1, false
	}
	for i := 0; i < nc; i++ {
		n := cycleCount(r, pl.Chunk)
		if bigChunk {
			n = r.Pick(pl.Chunk-1, pl.Chunk, pl.Chunk+1, 2*pl.Chunk+1)
		}
		if long {
			n = r.Pick(0, 1, pl.Chunk, pl.Chunk+1, r.Intn(2*pl.Chunk+2))
		}
		cy := MCycle{Keys: genKeys(r, n), Drain: -1}
		switch x := r.Intn(20); {
		case x < 5 && n > 0:
			cy.Drain = r.Intn(n) // partial (possibly zero)
		case x < 7:
			cy.Drain = 0
		}
		cy.ExtraClear = r.Intn(5) == 0
		cy.NoClear = r.Intn(3) == 0
		pl.Cycles = append(pl.Cycles, cy)
	}
	c := &Case{Prop: "C11", Kind: "morass-history", Plan: marshalPlan(pl)}
	if pl.Concurrent && r.Bool() {
		// the writers run as soon as they exist (the adversarial schedules of
		// concurrent mode are C12's business, but the other half of the
		// concurrent-mode histories gets them too)
		c.Sched = Sched{Strategy: "newest"}
	} else {
		c.Sched = PickStrategy(r, 200, []string{morassWriterSite}, nil)
	}
	return c
}

func shrinkMorass(c *Case) []*Case {
	var pl MorassPlan
	json.Unmarshal(c.Plan, &pl)
	var out []*Case
	add := func(q MorassPlan) {
		x := *c
		x.Plan = marshalPlan(q)
		out = append(out, &x)
	}
	clone := func() MorassPlan {
		q := pl
		q.Cycles = nil
		for _, cy := range pl.Cycles {
			cy.Keys = append([]int(nil), cy.Keys...)
			q.Cycles = append(q.Cycles, cy)
		}
		return q
	}
	// drop a cycle
	if len(pl.Cycles) > 1 {
		for i := range pl.Cycles {
			q := clone()
			q.Cycles = append(q.Cycles[:i], q.Cycles[i+1:]...)
			add(q)
		}
	}
	// halve / drop keys of a cycle
	for i, cy := range pl.Cycles {
		if n := len(cy.Keys); n > 0 {
			if n > 3 {
				q := clone()
				q.Cycles[i].Keys = q.Cycles[i].Keys[:n/2]
				if q.Cycles[i].Drain > n/2 {
					q.Cycles[i].Drain = n / 2
				}
				add(q)
			}
			q := clone()
			q.Cycles[i].Keys = q.Cycles[i].Keys[:n-1]
			if q.Cycles[i].Drain > n-1 {
				q.Cycles[i].Drain = n - 1
			}
			add(q)
		}
	}
	// smaller chunk
	if pl.Chunk > 1 {
		q := clone()
		q.Chunk = pl.Chunk / 2
		add(q)
		q = clone()
		q.Chunk = pl.Chunk - 1
		add(q)
	}
	if pl.Struct {
		q := clone()
		q.Struct = false
		q.Payload = 0
		add(q)
	}
	if pl.Payload > 0 {
		q := clone()
		q.Payload = 0
		add(q)
	}
	if pl.AutoClear {
		q := clone()
		q.AutoClear = false
		add(q)
	}
	for i, cy := range pl.Cycles {
		if cy.ExtraClear {
			q := clone()
			q.Cycles[i].ExtraClear = false
			add(q)
		}
		if cy.NoClear {
			q := clone()
			q.Cycles[i].NoClear = false
			add(q)
		}
		if cy.Drain >= 0 {
			q := clone()
			q.Cycles[i].Drain = -1
			add(q)
		}
		// simpler keys
		simple := true
		for j, k := range cy.Keys {
			if k != j {
				simple = false
			}
		}
		if !simple {
			q := clone()
			for j := range q.Cycles[i].Keys {
				q.Cycles[i].Keys[j] = j
			}
			add(q)
		}
	}
	return out
}

// ---------------------------------------------------------------------------
// C12: concurrent mode under seeded interleavings

func genC12(r *simrt.RNG) *Case {
	pl := MorassPlan{
		Chunk:      r.Pick(1, 2, 2, 3, 4, 5, 6, 7, 8, 16),
		Concurrent: true,
		Struct:     r.Bool(),
		CleanUp:    true,
	}
	if pl.Struct && r.Intn(4) == 0 {
		pl.Payload = r.Pick(4, 64, 600)
	}
	if r.Intn(10) == 0 {
		pl.Reg = true
	} else if r.Intn(12) == 0 {
		pl.Fresh, pl.Struct = true, true // first-use paths (type registration) under concurrency
		pl.Parallel = r.Bool()           // ... of the writers, or of two callers building sorters at the same time
	}
	oddNames(r, &pl)
	n := r.Intn(6*pl.Chunk + 1)
	switch r.Intn(5) {
	case 0:
		n = pl.Chunk * r.Range(1, 5) // empty last chunk
	case 1:
		n = pl.Chunk*r.Range(1, 5) + 1 // short last chunk
	}
	if rare(r, 10) && pl.Chunk <= 4 {
		n = pl.Chunk*r.Range(7, 14) + r.Intn(pl.Chunk+1) // many chunks: pool and hand-off channel cycle several times
	}
	if rare(r, 120) {
		// hundreds of run files in one cycle (growth of the file list past
		// any preallocated capacity)
		pl.Chunk = r.Pick(1, 1, 2)
		n = pl.Chunk * r.Pick(129, 130, 200, 257, 300)
	}
	pl.Cycles = []MCycle{{Keys: genKeys(r, n), Drain: -1}}
	if r.Intn(6) == 0 {
		// further cycles on the same sorter
		for k := r.Range(1, 3); k > 0; k-- {
			last := &pl.Cycles[len(pl.Cycles)-1]
			if r.Intn(3) == 0 && len(last.Keys) > 0 {
				last.Drain = r.Intn(len(last.Keys)) // partial drain before Clear
			}
			pl.Cycles = append(pl.Cycles, MCycle{Keys: genKeys(r, r.Intn(4*pl.Chunk+1)), Drain: -1})
		}
		pl.AutoClear = r.Intn(3) == 0
	}
	return &Case{Prop: "C12", Kind: "morass-concurrent", Plan: marshalPlan(pl),
		Sched: PickStrategy(r, 60+12*n, []string{morassWriterSite}, []string{"finalise-enter", "finalised"})}
}

// ---------------------------------------------------------------------------
// C13: single-fault enumeration and file-system residue

func genC13Fault(r *simrt.RNG) *Case {
	pl := MorassPlan{
		Chunk:      r.Pick(2, 3, 4, 8),
		Concurrent: r.Bool(),
		Struct:     r.Bool(),
		CleanUp:    true,
		Tolerant:   true,
	}
	if pl.Struct {
		pl.Payload = r.Pick(0, 32, 700)
	}
	oddNames(r, &pl)
	n := pl.Chunk*r.Range(1, 4) + r.Intn(pl.Chunk+1)
	if r.Intn(8) == 0 {
		n = r.Intn(pl.Chunk) // in-memory only: faults can only hit New
	}
	pl.Cycles = []MCycle{{Keys: genKeys(r, n), Drain: -1}}
	if r.Intn(3) == 0 {
		// a reused sorter: faults in either cycle; in sequential mode the
		// client recovers from a reported error with Clear and goes on
		pl.Cycles = append([]MCycle{{Keys: genKeys(r, pl.Chunk+r.Intn(2*pl.Chunk+1)), Drain: -1}}, pl.Cycles...)
		if r.Intn(3) == 0 {
			pl.Cycles = append(pl.Cycles, MCycle{Keys: genKeys(r, pl.Chunk+r.Intn(2*pl.Chunk+1)), Drain: -1})
		}
		pl.AutoClear = r.Intn(3) != 0
	}
	if r.Intn(3) == 0 {
		// after a failing Pull the caller drains on: residue under AutoClean / AutoClear
		pl.DrainOn = true
		if len(pl.Cycles) == 1 && r.Bool() {
			pl.AutoClean = true // removes the directory: single-cycle histories only
		} else {
			pl.AutoClear = true
		}
	}
	c := &Case{Prop: "C13", Kind: "morass-fault", Plan: marshalPlan(pl)}
	if pl.Concurrent {
		c.Sched = PickStrategy(r, 60+12*n, []string{morassWriterSite}, []string{"finalise-enter"})
	} else {
		c.Sched = Sched{Strategy: "rtc"}
	}
	return c
}

func genC13Residue(r *simrt.RNG) *Case {
	c := genC11(r)
	var pl MorassPlan
	json.Unmarshal(c.Plan, &pl)
	pl.CleanUp = r.Intn(3) != 0
	switch r.Intn(3) {
	case 0:
		pl.AutoClear = true
	case 1:
		// AutoClean removes the directory on exhaustion: only the last cycle
		// may drain fully
		pl.AutoClean = true
		pl.AutoClear = r.Bool()
		for i := range pl.Cycles {
			if i < len(pl.Cycles)-1 {
				if n := len(pl.Cycles[i].Keys); pl.Cycles[i].Drain < 0 || pl.Cycles[i].Drain >= n {
					pl.Cycles[i].Drain = n / 2
					if n == 0 {
						pl.Cycles[i].Drain = 0
					}
				}
			} else {
				pl.Cycles[i].Drain = -1
				pl.Cycles[i].ExtraClear = false
			}
		}
	}
	c.Prop = "C13"
	c.Kind = "morass-residue"
	c.Plan = marshalPlan(pl)
	return c
}

// faultable: every woven I/O call whose failure the statement covers
func faultable(kind string) bool { return !simrt.Unfaultable(kind) }

// readKind / writeKind classify calls for the choice of error identity.
func readKind(kind string) bool {
	return kind == "decode" || strings.HasPrefix(kind, "read")
}

func exploreC13(t *testing.T, w *Worker, r *simrt.RNG) {
	if big := bigChunkCases("C13"); w.unit < len(big) {
		w.Report(big[w.unit], runMorass(t, big[w.unit], RunOpts{}))
	}
	if r.Intn(4) == 0 {
		c := genC13Residue(r)
		res := runMorass(t, c, RunOpts{})
		w.Report(c, res)
		return
	}
	base := genC13Fault(r)
	dry := runMorass(t, base, RunOpts{})
	dry.Trivial = true
	w.Report(base, dry)
	if dry.Viol != nil || dry.ToolErr != "" {
		return
	}
	var pl MorassPlan
	json.Unmarshal(base.Plan, &pl)
	// the dry run's schedule, made explicit, is re-interpreted under each fault
	explicit := base.Sched
	explicit.Explicit = true
	explicit.Choices = dry.Choices
	twoFault := 0
	for _, io := range dry.IOLog {
		if !faultable(io.Kind) {
			continue
		}
		type mode struct {
			after  bool
			as     string
			sticky bool
		}
		modes := []mode{{false, "", false}}
		switch {
		case io.Kind == "tempfile" || io.Kind == "tempdir" || io.Kind == "create" || io.Kind == "openfile" || io.Kind == "open":
			// a full descriptor table: creation keeps failing (a retry does not help)
			if r.Intn(2) == 0 {
				modes = append(modes, mode{false, "emfile", true})
			}
		case io.Kind == "encode" || strings.HasPrefix(io.Kind, "write") || io.Kind == "flush":
			// torn write reported; and, sometimes, the error a full disk gives
			modes = append(modes, mode{true, "", false})
			if r.Intn(3) == 0 {
				modes = append(modes, mode{r.Bool(), []string{"enospc", "efbig"}[r.Intn(2)], r.Bool()})
			}
		case readKind(io.Kind):
			// what a truncated run file gives
			if r.Intn(2) == 0 {
				modes = append(modes, mode{false, "unexpected-eof", false})
			}
		}
		for _, md := range modes {
			after := md.after
			c := *base
			c.Sched = explicit
			c.Faults = []simrt.FaultSpec{{Ordinal: io.Ordinal, After: after, As: md.as, Sticky: md.sticky}}
			res := runMorass(t, &c, RunOpts{})
			w.Stats.Probes[fmt.Sprintf("fault_position[%s]", io.Kind)]++
			w.Report(&c, res)
			// a second fault in a later cycle, after the client has recovered
			// from the first with Clear (sequential mode, several cycles)
			if !pl.Concurrent && len(pl.Cycles) > 1 && res.Viol == nil && res.Probes["recovered_with_clear_after_error"] > 0 && twoFault < 6 && len(res.Fired) == 1 {
				var later []simrt.IORecord
				for _, x := range res.IOLog {
					if faultable(x.Kind) && x.Ordinal > res.Fired[0].Ordinal {
						later = append(later, x)
					}
				}
				if len(later) > 0 {
					twoFault++
					x := later[r.Intn(len(later))]
					c3 := c
					c3.Faults = []simrt.FaultSpec{c.Faults[0], {Ordinal: x.Ordinal, After: x.Kind == "encode" && r.Bool()}}
					res3 := runMorass(t, &c3, RunOpts{})
					w.Stats.Probes["two_fault_runs"]++
					w.Report(&c3, res3)
				}
			}
			if pl.Concurrent {
				// pair the fault position with other caller/writer orderings,
				// among them "the other writers run on while the failed one
				// is parked" (where a single error slot can be overwritten)
				for k := 0; k < 3; k++ {
					c2 := *base
					c2.Faults = c.Faults
					switch k {
					case 0:
						c2.Sched = Sched{Strategy: "rw:0.5", Seed: r.Uint64()}
					case 1:
						c2.Sched = Sched{Strategy: fmt.Sprintf("pct:%d:%d", r.Range(1, 3), 60+len(dry.Choices)), Seed: r.Uint64()}
					default:
						c2.Sched = Sched{Strategy: "rw:0.2", Seed: r.Uint64()}
					}
					res2 := runMorass(t, &c2, RunOpts{})
					w.Report(&c2, res2)
				}
			}
		}
	}
}

// bigChunkCases: "any in-memory chunk size" includes sizes beyond every
// constant an implementation may have (1024, 4096, 16384 and 65536 are
// favourites): once per check, sorts of chunk+1, 2*chunk+1 and chunk+7 values
// on one sorter (the later ones on recycled buffers) at chunk sizes 1025,
// 5000, 20000 and 70000.
func bigChunkCases(prop string) []*Case {
	var out []*Case
	keys := func(n int) []int {
		k := make([]int, n)
		for i := range k {
			k[i] = (i * 7919) % 1000
		}
		return k
	}
	for _, chunk := range []int{1025, 5000, 20000, 70000} {
		for _, conc := range []bool{false, true} {
			if prop == "C12" && !conc {
				continue
			}
			if prop != "C12" && conc && chunk > 20000 {
				continue // the largest size in one mode per check: sequential, and concurrent in C12
			}
			pl := MorassPlan{Chunk: chunk, Concurrent: conc, AutoClear: conc, CleanUp: true, Cycles: []MCycle{
				{Keys: keys(chunk + 1), Drain: -1},
				{Keys: keys(2*chunk + 1), Drain: -1},
				{Keys: keys(chunk + 7), Drain: -1},
			}}
			if chunk > 20000 {
				pl.Cycles = []MCycle{{Keys: keys(chunk + 1), Drain: -1}, {Keys: keys(chunk + 7), Drain: -1}}
				if conc {
					// both buffers of the rotation must have been filled once
					pl.Cycles[0].Keys = keys(2*chunk + 1)
				}
				pl.NoHB = true
			}
			c := &Case{Prop: prop, Kind: "morass-history", Plan: marshalPlan(pl), Sched: Sched{Strategy: "rtc"}}
			if prop == "C13" {
				c.Kind = "morass-residue"
			}
			if conc {
				c.Sched = Sched{Strategy: "newest"}
			}
			out = append(out, c)
		}
	}
	return out
}

func init() {
	register(&Property{
		ID: "C11",
		Explore: func(t *testing.T, w *Worker, r *simrt.RNG) {
			if big := bigChunkCases("C11"); w.unit < len(big) {
				w.Report(big[w.unit], runMorass(t, big[w.unit], RunOpts{})) // one per unit: the workers share them
			}
			c := genC11(r)
			w.Report(c, runMorass(t, c, RunOpts{}))
		},
		Run:    runMorass,
		Shrink: shrinkMorass,
	})
	register(&Property{
		ID: "C12",
		Explore: func(t *testing.T, w *Worker, r *simrt.RNG) {
			if big := bigChunkCases("C12"); w.unit < len(big) {
				w.Report(big[w.unit], runMorass(t, big[w.unit], RunOpts{}))
			}
			c := genC12(r)
			w.Report(c, runMorass(t, c, RunOpts{}))
		},
		Run:    runMorass,
		Shrink: shrinkMorass,
	})
	register(&Property{
		ID:      "C13",
		Explore: exploreC13,
		Run:     runMorass,
		Shrink:  shrinkMorass,
	})
}
