package props

import (
	"encoding/json"
	"fmt"
	"image/color"
	"io"
	"math"
	"strconv"
	"strings"
	"testing"
	"time"
	"unicode/utf8"

	"github.com/biogo/biogo/alphabet"
	"github.com/biogo/biogo/feat"
	"github.com/biogo/biogo/io/featio"
	"github.com/biogo/biogo/io/featio/bed"
	"github.com/biogo/biogo/io/featio/gff"
	"github.com/biogo/biogo/seq"
	"github.com/biogo/biogo/seq/linear"

	"verif/harness/simio"
	"verif/harness/simrt"
)

// ---------------------------------------------------------------------------
// C02 — BED / GFF write-then-read

type BedRec struct {
	Chrom      string `json:"chrom"`
	Start      int    `json:"start"`
	End        int    `json:"end"`
	Name       string `json:"name,omitempty"`
	Score      int    `json:"score,omitempty"`
	Strand     int    `json:"strand,omitempty"`
	ThickStart int    `json:"thick_start,omitempty"`
	ThickEnd   int    `json:"thick_end,omitempty"`
	Opaque     bool   `json:"opaque,omitempty"`
	RGB        [3]int `json:"rgb,omitempty"`
	Sizes      []int  `json:"sizes,omitempty"`
	Starts     []int  `json:"starts,omitempty"`
}

type GffAttr struct {
	Tag   string `json:"tag"`
	Value string `json:"value"`
}

type GffItem struct {
	Kind string `json:"kind"` // feature | region | seq | meta
	// feature
	SeqName  string    `json:"seqname,omitempty"`
	Source   string    `json:"source,omitempty"`
	Feature  string    `json:"feature,omitempty"`
	Start    int       `json:"start"`
	End      int       `json:"end"`
	HasScore bool      `json:"has_score,omitempty"`
	Score    string    `json:"score,omitempty"` // strconv 'g' form, may be +Inf/-Inf
	Strand   int       `json:"strand,omitempty"`
	Frame    int       `json:"frame,omitempty"`
	Attrs    []GffAttr `json:"attrs,omitempty"`
	NilAttrs bool      `json:"nil_attrs,omitempty"`
	Comments string    `json:"comments,omitempty"`
	// seq
	Alpha   string `json:"alpha,omitempty"`
	Letters string `json:"letters,omitempty"`
	// region: ViaMeta writes the line with WriteMetaData(*Feature), the
	// other documented way to emit a sequence-region line
	ViaMeta bool `json:"via_meta,omitempty"`
	// meta: a metadata or comment line the writer can emit and the reader
	// passes over: type-dna | type-rna | type-protein | date | source | comment
	Meta string `json:"meta,omitempty"`
}

// writeMeta emits a metadata item.
func writeMeta(w *gff.Writer, meta string) (int, error) {
	switch meta {
	case "type-dna":
		return w.WriteMetaData(feat.DNA)
	case "type-rna":
		return w.WriteMetaData(feat.RNA)
	case "type-protein":
		return w.WriteMetaData(feat.Protein)
	case "date":
		return w.WriteMetaData(time.Date(2020, 1, 2, 0, 0, 0, 0, time.UTC))
	case "source":
		return w.WriteMetaData("source-version prog 1.0")
	}
	return w.WriteComment("a comment")
}

type C02Plan struct {
	Format    string         `json:"format"` // bed | gff
	BedType   int            `json:"bed_type,omitempty"`
	WriteType int            `json:"write_type,omitempty"`
	Beds      []BedRec       `json:"beds,omitempty"`
	Header    bool           `json:"header,omitempty"`
	Width     int            `json:"width,omitempty"`
	Items     []GffItem      `json:"items,omitempty"`
	Delivery  simio.Delivery `json:"delivery"`
	// WriteFault > 0: additionally write to a medium that fails after
	// (WriteFault-1) mod len(text) bytes.
	WriteFault int `json:"write_fault,omitempty"`
	// Reject > 0: the medium refuses the first call of the Write of record
	// Reject-1 once and works again afterwards; with Retry the caller writes
	// that record again. The file must hold exactly the records whose Write
	// succeeded (want is built from those).
	Reject int  `json:"reject,omitempty"`
	Retry  bool `json:"retry,omitempty"`
	// RejectOffset > 0: it is not the first but a later call of that Write
	// that is refused: the record is torn, so only the byte-count clause is
	// checked for that Write (the count must equal what the medium received).
	RejectOffset int `json:"reject_offset,omitempty"`
	// WarmType > 0 (BED): the Writer has been used at this width before (on
	// another stream position) and its exported BedType field is then set to
	// WriteType.
	WarmType int `json:"warm_type,omitempty"`
	// ByteDst: the destination is an io.ByteWriter as well as an io.Writer.
	ByteDst bool `json:"byte_dst,omitempty"`
}

func (pl *C02Plan) dst(sink *simio.Sink) io.Writer {
	if pl.ByteDst {
		return sink
	}
	return simio.Plain{W: sink}
}

// swSink lets one Writer be used on two media in turn.
type swSink struct{ cur io.Writer }

func (s *swSink) Write(p []byte) (int, error) { return s.cur.Write(p) }

var fieldWords = []string{"track", "browser", "tracking_ctg7", "browser_position", "chr", "gff-version", "date", "Type", "DNA", "end-DNA",
	"sequence-region", "NaN", "Inf", "nil", "null", "true", "0", "-1", "1e3", "0x1F", "+", "-", ".", "..", "\\t", "\\n", "%s", "%d%%", "%41", "%2F", "a%20b", "%zz", "&amp;", "\\x41"}

const fieldChars = "abcXYZ019_.:|>@+#;=-/ *~!\"'"

// genField draws a non-empty, tab-free, trimmed text field not starting with '#'.
func genField(r *simrt.RNG, noSpace bool) string {
	for {
		n := r.Pick(1, 1, 2, 4, 12)
		if r.Intn(60) == 0 {
			n = r.Pick(4095, 4096, 4097, r.Range(3000, 9000)) // fields around bufio's buffer size
		}
		b := make([]byte, n)
		for i := range b {
			if r.Intn(4) == 0 {
				b[i] = byte(32 + r.Intn(95))
			} else {
				b[i] = fieldChars[r.Intn(len(fieldChars))]
			}
			if noSpace && b[i] == ' ' {
				b[i] = '_'
			}
		}
		s := strings.TrimSpace(string(b))
		if r.Intn(10) == 0 {
			// text is not restricted to ASCII
			u := []string{"à", "Å", "é", "ß", "ü", "日本", "Ω", "ñ", "\ufeff"}[r.Intn(9)]
			switch r.Intn(3) {
			case 0:
				s += u
			case 1:
				s = u + s
			default:
				s = s[:len(s)/2] + u + s[len(s)/2:]
			}
			if !utf8.ValidString(s) {
				s = u
			}
		}
		if r.Intn(12) == 0 {
			// words a format gives a meaning to elsewhere (header and
			// directive keywords, number and placeholder spellings)
			kw := fieldWords[r.Intn(len(fieldWords))]
			if r.Bool() {
				s = kw
			} else {
				s = kw + s
			}
		}
		if s != "" && s[0] != '#' {
			return s
		}
	}
}

func genCoord(r *simrt.RNG) int {
	switch r.Intn(8) {
	case 0:
		return 0
	case 1:
		return -r.Intn(1000)
	case 2:
		return r.Pick(math.MaxInt32, math.MinInt32, 1<<40, -(1 << 40), math.MaxInt64, math.MinInt64, math.MaxInt32+1, math.MinInt32-1)
	}
	return r.Intn(100000)
}

func genBed(r *simrt.RNG) C02Plan {
	types := []int{3, 4, 5, 6, 12}
	pl := C02Plan{Format: "bed", BedType: types[r.Intn(len(types))]}
	var narrower []int
	for _, t := range types {
		if t <= pl.BedType {
			narrower = append(narrower, t)
		}
	}
	pl.WriteType = narrower[r.Intn(len(narrower))]
	if r.Bool() {
		pl.WriteType = pl.BedType
	}
	for i, n := 0, r.Pick(0, 1, 1, 2, 5); i < n; i++ {
		b := BedRec{Chrom: genField(r, false), Start: genCoord(r), End: genCoord(r), Name: genField(r, false),
			Score: genCoord(r), Strand: r.Range(-1, 1), ThickStart: genCoord(r), ThickEnd: genCoord(r)}
		if r.Bool() {
			b.Opaque = true
			b.RGB = [3]int{r.Intn(256), r.Intn(256), r.Intn(256)}
			if r.Intn(4) == 0 {
				b.RGB = [3]int{0, 0, 0}
			}
		}
		nb := r.Range(1, 4)
		if r.Intn(15) == 0 {
			nb = r.Range(5, 60)
		}
		for j, k := 0, nb; j < k; j++ {
			b.Sizes = append(b.Sizes, genCoord(r))
			b.Starts = append(b.Starts, genCoord(r))
		}
		pl.Beds = append(pl.Beds, b)
	}
	if len(pl.Beds) > 0 && r.Intn(40) == 0 {
		pl.Beds[0].Chrom = "\ufeff" + pl.Beds[0].Chrom
	}
	return pl
}

func (b BedRec) build(t int) feat.Feature {
	switch t {
	case 3:
		return &bed.Bed3{Chrom: b.Chrom, ChromStart: b.Start, ChromEnd: b.End}
	case 4:
		return &bed.Bed4{Chrom: b.Chrom, ChromStart: b.Start, ChromEnd: b.End, FeatName: b.Name}
	case 5:
		return &bed.Bed5{Chrom: b.Chrom, ChromStart: b.Start, ChromEnd: b.End, FeatName: b.Name, FeatScore: b.Score}
	case 6:
		return &bed.Bed6{Chrom: b.Chrom, ChromStart: b.Start, ChromEnd: b.End, FeatName: b.Name, FeatScore: b.Score, FeatStrand: seq.Strand(b.Strand)}
	}
	c := color.RGBA{}
	if b.Opaque {
		c = color.RGBA{R: uint8(b.RGB[0]), G: uint8(b.RGB[1]), B: uint8(b.RGB[2]), A: 0xff}
	}
	return &bed.Bed12{Chrom: b.Chrom, ChromStart: b.Start, ChromEnd: b.End, FeatName: b.Name, FeatScore: b.Score,
		FeatStrand: seq.Strand(b.Strand), ThickStart: b.ThickStart, ThickEnd: b.ThickEnd, Rgb: c,
		BlockCount: len(b.Sizes), BlockSizes: append([]int(nil), b.Sizes...), BlockStarts: append([]int(nil), b.Starts...)}
}

// columns renders the first m columns of a BED feature as comparable values.
func bedColumns(f feat.Feature, m int) ([]string, bool) {
	var c []string
	switch b := f.(type) {
	case *bed.Bed3:
		c = []string{b.Chrom, strconv.Itoa(b.ChromStart), strconv.Itoa(b.ChromEnd)}
	case *bed.Bed4:
		c = []string{b.Chrom, strconv.Itoa(b.ChromStart), strconv.Itoa(b.ChromEnd), b.FeatName}
	case *bed.Bed5:
		c = []string{b.Chrom, strconv.Itoa(b.ChromStart), strconv.Itoa(b.ChromEnd), b.FeatName, strconv.Itoa(b.FeatScore)}
	case *bed.Bed6:
		c = []string{b.Chrom, strconv.Itoa(b.ChromStart), strconv.Itoa(b.ChromEnd), b.FeatName, strconv.Itoa(b.FeatScore), strconv.Itoa(int(b.FeatStrand))}
	case *bed.Bed12:
		c = []string{b.Chrom, strconv.Itoa(b.ChromStart), strconv.Itoa(b.ChromEnd), b.FeatName, strconv.Itoa(b.FeatScore), strconv.Itoa(int(b.FeatStrand)),
			strconv.Itoa(b.ThickStart), strconv.Itoa(b.ThickEnd), fmt.Sprint(b.Rgb), strconv.Itoa(b.BlockCount), fmt.Sprint(b.BlockSizes), fmt.Sprint(b.BlockStarts)}
	default:
		return nil, false
	}
	if len(c) < m {
		return c, false
	}
	return c[:m], true
}

func bedTypeOf(f feat.Feature) int {
	switch f.(type) {
	case *bed.Bed3:
		return 3
	case *bed.Bed4:
		return 4
	case *bed.Bed5:
		return 5
	case *bed.Bed6:
		return 6
	case *bed.Bed12:
		return 12
	}
	return 0
}

var gffAlphas = []string{"dna", "rna", "protein"}

func genTag(r *simrt.RNG) string {
	// standard identifier, as the gff package documents: [A-Za-z][A-Za-z0-9_]*
	const first = "abcxyzABCXYZ"
	const rest = "abcxyzABCXYZ0123456789_"
	n := r.Pick(1, 2, 4, 9)
	b := make([]byte, n)
	b[0] = first[r.Intn(len(first))]
	for i := 1; i < n; i++ {
		b[i] = rest[r.Intn(len(rest))]
	}
	return string(b)
}

func genAttrValue(r *simrt.RNG) string {
	if r.Intn(5) == 0 {
		return ""
	}
	for {
		s := genField(r, false)
		if !strings.Contains(s, ";") {
			return s
		}
	}
}

func genGff(r *simrt.RNG) C02Plan {
	pl := C02Plan{Format: "gff", Header: r.Bool(), Width: r.Pick(1, 2, 60, r.Range(1, 200), 5000)}
	if r.Intn(12) == 0 {
		// "never wrap": line widths at the far end of int
		pl.Width = r.Pick(math.MaxInt, math.MaxInt-1, math.MaxInt-r.Intn(64), math.MaxInt32, math.MaxInt32+1, 1<<62)
	}
	for i, n := 0, r.Pick(0, 1, 1, 2, 3, 6); i < n; i++ {
		var it GffItem
		switch k := r.Intn(10); {
		case k < 6:
			it = GffItem{Kind: "feature", SeqName: genField(r, false), Source: genField(r, false), Feature: genField(r, false),
				Strand: r.Range(-1, 1), Frame: r.Range(-1, 2)}
			it.Start = r.Pick(0, 0, 1, r.Intn(100000), math.MaxInt32, -1, -r.Intn(100000))
			it.End = it.Start + r.Pick(1, 1, 2, 1+r.Intn(5000))
			if r.Intn(3) != 0 {
				it.HasScore = true
				var v float64
				switch r.Intn(7) {
				case 0:
					v = math.Inf(1)
				case 1:
					v = math.Inf(-1)
				case 2:
					v = 0
				case 3:
					v = float64(r.Intn(1000)) / 8
				case 4:
					v = math.Float64frombits(r.Uint64())
					if math.IsNaN(v) {
						v = 1.5e-300
					}
				case 5:
					v = -float64(r.Intn(100000)) / 1000
				default:
					v = r.Float64()
				}
				it.Score = strconv.FormatFloat(v, 'g', -1, 64)
			}
			if r.Intn(4) == 0 {
				it.NilAttrs = true
			} else {
				na := r.Pick(0, 1, 1, 2, 4)
				if r.Intn(15) == 0 {
					na = r.Range(5, 30)
				}
				for j, m := 0, na; j < m; j++ {
					it.Attrs = append(it.Attrs, GffAttr{genTag(r), genAttrValue(r)})
				}
			}
			if r.Intn(3) == 0 {
				it.Comments = genField(r, false)
			}
		case k < 8:
			it = GffItem{Kind: "region", SeqName: genField(r, true)}
			it.Start = r.Pick(0, 1, r.Intn(100000), -1, -r.Intn(100000))
			it.End = it.Start + 1 + r.Intn(5000)
			it.ViaMeta = r.Intn(3) == 0
			if r.Intn(4) == 0 {
				// the lines a writer may put in front of it
				pl.Items = append(pl.Items, GffItem{Kind: "meta", Meta: []string{"type-dna", "type-rna", "type-protein", "date", "source", "comment"}[r.Intn(6)]})
			}
		default:
			it = GffItem{Kind: "seq", SeqName: genField(r, true), Alpha: gffAlphas[r.Intn(len(gffAlphas))]}
			ln := r.Pick(1, 2, r.Range(1, 150), r.Range(4090, 4100), r.Range(8190, 9000))
			it.Letters = genLetters(r, it.Alpha, ln)
		}
		pl.Items = append(pl.Items, it)
	}
	if len(pl.Items) > 0 && pl.Items[0].Kind == "feature" && r.Intn(40) == 0 {
		// the very first bytes of a stream: text that begins like a byte order mark
		pl.Items[0].SeqName = "\ufeff" + pl.Items[0].SeqName
	}
	return pl
}

func (it GffItem) build() feat.Feature {
	switch it.Kind {
	case "feature":
		f := &gff.Feature{SeqName: it.SeqName, Source: it.Source, Feature: it.Feature, FeatStart: it.Start, FeatEnd: it.End,
			FeatStrand: seq.Strand(it.Strand), FeatFrame: gff.Frame(it.Frame), Comments: it.Comments}
		if it.HasScore {
			v, _ := strconv.ParseFloat(it.Score, 64)
			f.FeatScore = &v
		}
		if !it.NilAttrs {
			f.FeatAttributes = gff.Attributes{}
			for _, a := range it.Attrs {
				f.FeatAttributes = append(f.FeatAttributes, gff.Attribute{Tag: a.Tag, Value: a.Value})
			}
		}
		return f
	case "region":
		return &gff.Region{Sequence: gff.Sequence{SeqName: it.SeqName}, RegionStart: it.Start, RegionEnd: it.End}
	}
	return linear.NewSeq(it.SeqName, alphabet.BytesToLetters([]byte(it.Letters)), alphaOf[it.Alpha])
}

// describe renders a GFF item read back (or built) into comparable text.
func gffDescribe(f feat.Feature) string {
	switch x := f.(type) {
	case *gff.Feature:
		score := "nil"
		if x.FeatScore != nil {
			score = strconv.FormatFloat(*x.FeatScore, 'g', -1, 64)
		}
		var attrs []string
		for _, a := range x.FeatAttributes {
			attrs = append(attrs, fmt.Sprintf("%q=%q", a.Tag, a.Value))
		}
		return fmt.Sprintf("feature seqname=%q source=%q feature=%q start=%d end=%d len=%d score=%s strand=%d frame=%d attrs=[%s] comments=%q",
			x.SeqName, x.Source, x.Feature, x.FeatStart, x.FeatEnd, x.Len(), score, x.FeatStrand, x.FeatFrame, strings.Join(attrs, ","), x.Comments)
	case *gff.Region:
		return fmt.Sprintf("region name=%q start=%d end=%d len=%d", x.SeqName, x.RegionStart, x.RegionEnd, x.Len())
	case *linear.Seq:
		return fmt.Sprintf("seq name=%q moltype=%v letters=%s", x.ID, x.Alpha.Moltype(), string(alphabet.LettersToBytes(x.Seq)))
	}
	return fmt.Sprintf("unexpected %T", f)
}

func genC02(r *simrt.RNG) *Case {
	var pl C02Plan
	if r.Bool() {
		pl = genBed(r)
	} else {
		pl = genGff(r)
	}
	pl.Delivery = simio.PickDelivery(r)
	pl.ByteDst = r.Intn(4) == 0
	if pl.Format == "bed" && r.Intn(8) == 0 {
		pl.WarmType = []int{3, 4, 5, 6, 12}[r.Intn(5)]
		if pl.WarmType > pl.BedType {
			pl.WarmType = pl.BedType
		}
	}
	if r.Intn(3) == 0 {
		pl.WriteFault = 1 + r.Intn(1<<20)
		if r.Bool() {
			pl.WriteFault = 1 + r.Intn(200)
		}
	} else if n := len(pl.Beds) + len(pl.Items); n > 0 && r.Intn(6) == 0 {
		pl.Reject = 1 + r.Intn(n)
		pl.Retry = r.Bool()
		if r.Intn(3) == 0 {
			pl.RejectOffset = r.Range(1, 6) // a later call of the same Write
		}
	}
	return &Case{Prop: "C02", Kind: pl.Format, Plan: marshalPlan(pl)}
}

// writeFeats writes the plan's records through the real writer; it returns the
// text, the reference descriptions of what should be read back and the number
// of sink writes.
func writeFeats(pl *C02Plan) (text []byte, want []string, writes int, v *simrt.Violation) {
	return writeFeatsTo(pl, &simio.Sink{})
}

func writeFeatsTo(pl *C02Plan, sink *simio.Sink) (text []byte, want []string, writes int, v *simrt.Violation) {
	site := "c02-" + pl.Format
	var w featio.Writer
	if pl.Format == "bed" {
		var bw *bed.Writer
		var err error
		if pl.WarmType > 0 && len(pl.Beds) > 0 {
			sw := &swSink{cur: &simio.Sink{}}
			bw, err = bed.NewWriter(sw, pl.WarmType)
			if err == nil {
				if _, werr := bw.Write(pl.Beds[0].build(pl.BedType)); werr != nil {
					return nil, nil, 0, viol(site+"-write-error", "warm-up record at width %d: Write failed on a healthy sink: %v", pl.WarmType, werr)
				}
				bw.BedType = pl.WriteType
				sw.cur = pl.dst(sink)
			}
		} else {
			bw, err = bed.NewWriter(pl.dst(sink), pl.WriteType)
		}
		if err != nil {
			return nil, nil, 0, viol(site+"-writer", "NewWriter(%d): %v", pl.WriteType, err)
		}
		w = bw
		retry := pl.Retry
		for i := 0; i < len(pl.Beds); i++ {
			b := pl.Beds[i]
			if i == pl.Reject-1 && !sink.Rejected {
				sink.RejectCall = sink.NCalls + 1 + pl.RejectOffset
			}
			before := len(sink.Buf)
			n, err := w.Write(b.build(pl.BedType))
			if err != nil && sink.Rejected && !sink.Failed && n == len(sink.Buf)-before {
				// the medium refused a call once; this record is not written
				if len(sink.Buf) != before {
					return sink.Buf, nil, sink.NCalls, nil // a partial record reached the medium: nothing more can be asked
				}
				if retry {
					retry = false
					i--
				}
				continue
			}
			if err != nil && !sink.Failed {
				return nil, nil, 0, viol(site+"-write-error", "record %d: Write failed on a healthy sink: %v", i, err)
			}
			if n != len(sink.Buf)-before {
				if sink.Failed {
					return nil, nil, 0, viol(site+"-bytecount-on-failure", "record %d: Write returned n=%d but %d bytes were emitted (the sink failed after %d bytes in total; Write returned %v)", i, n, len(sink.Buf)-before, sink.FailAt, err)
				}
				return nil, nil, 0, viol(site+"-bytecount", "record %d: Write returned n=%d but %d bytes were emitted", i, n, len(sink.Buf)-before)
			}
			if sink.Failed {
				return sink.Buf, want, sink.NCalls, nil
			}
			cols, _ := bedColumns(b.build(pl.BedType), pl.WriteType)
			want = append(want, fmt.Sprintf("bed%d %q", pl.WriteType, cols))
		}
		return sink.Buf, want, sink.NCalls, nil
	}
	gw := gff.NewWriter(pl.dst(sink), pl.Width, pl.Header)
	w = gw
	retry := pl.Retry
	for i := 0; i < len(pl.Items); i++ {
		it := pl.Items[i]
		if i == pl.Reject-1 && !sink.Rejected {
			sink.RejectCall = sink.NCalls + 1 + pl.RejectOffset
		}
		before := len(sink.Buf)
		var f feat.Feature
		var n int
		var err error
		switch {
		case it.Kind == "meta":
			n, err = writeMeta(gw, it.Meta)
		case it.Kind == "region" && it.ViaMeta:
			f = it.build()
			n, err = gw.WriteMetaData(&gff.Feature{SeqName: it.SeqName, FeatStart: it.Start, FeatEnd: it.End})
		default:
			f = it.build()
			n, err = w.Write(f)
		}
		if pl.RejectOffset > 0 && sink.Rejected && n != len(sink.Buf)-before {
			return nil, nil, 0, viol(site+"-bytecount-on-failure", "item %d (%s): Write returned n=%d but %d bytes were emitted (the medium refused call %d of this Write once; Write returned %v)", i, it.Kind, n, len(sink.Buf)-before, pl.RejectOffset+1, err)
		}
		if err != nil && sink.Rejected && !sink.Failed && n == len(sink.Buf)-before {
			if len(sink.Buf) != before {
				return sink.Buf, nil, sink.NCalls, nil
			}
			if retry {
				retry = false
				i--
			}
			continue
		}
		if err != nil && !sink.Failed {
			return nil, nil, 0, viol(site+"-write-error", "item %d (%s): Write failed on a healthy sink: %v", i, it.Kind, err)
		}
		emitted := sink.Buf[before:]
		if n != len(emitted) {
			if sink.Failed {
				return nil, nil, 0, viol(site+"-bytecount-on-failure", "item %d (%s): Write returned n=%d but %d bytes were emitted (the sink failed after %d bytes in total; Write returned %v)", i, it.Kind, n, len(emitted), sink.FailAt, err)
			}
			return nil, nil, 0, viol(site+"-bytecount", "item %d (%s): Write returned n=%d but %d bytes were emitted", i, it.Kind, n, len(emitted))
		}
		if sink.Failed {
			return sink.Buf, want, sink.NCalls, nil
		}
		if it.Kind == "meta" {
			continue // nothing to read back: the reader passes over it
		}
		// the text carries 1-based inclusive coordinates
		switch it.Kind {
		case "feature":
			cols := strings.Split(strings.TrimRight(string(emitted), "\n"), "\t")
			if it.Start >= 0 && (len(cols) < 5 || cols[3] != strconv.Itoa(it.Start+1) || cols[4] != strconv.Itoa(it.End)) {
				return nil, nil, 0, viol(site+"-coords", "item %d: feature [%d,%d) written with start/end columns %q (want %d and %d)", i, it.Start, it.End, cols, it.Start+1, it.End)
			}
		case "region":
			cols := strings.Fields(string(emitted))
			if it.Start >= 0 && (len(cols) != 4 || cols[2] != strconv.Itoa(it.Start+1) || cols[3] != strconv.Itoa(it.End)) {
				return nil, nil, 0, viol(site+"-coords", "item %d: region [%d,%d) written as %q", i, it.Start, it.End, emitted)
			}
		}
		ref := f
		if it.Kind == "seq" {
			// read back under the moltype's default alphabet
			m := map[string]alphabet.Alphabet{"dna": alphabet.DNA, "rna": alphabet.RNA, "protein": alphabet.Protein}[it.Alpha]
			ref = linear.NewSeq(it.SeqName, alphabet.BytesToLetters([]byte(it.Letters)), m)
		}
		want = append(want, gffDescribe(ref))
	}
	return sink.Buf, want, sink.NCalls, nil
}

// readFeats reads all features back until io.EOF.
func readFeats(pl *C02Plan, src *simio.Source, limit int) (got []string, v *simrt.Violation) {
	site := "c02-" + pl.Format
	var rd featio.Reader
	if pl.Format == "bed" {
		br, err := bed.NewReader(src, pl.WriteType)
		if err != nil {
			return nil, viol(site+"-reader", "NewReader(%d): %v", pl.WriteType, err)
		}
		rd = br
	} else {
		rd = gff.NewReader(src)
	}
	for calls := 0; ; calls++ {
		if calls > limit {
			return got, viol(site+"-no-eof", "reader did not reach io.EOF within %d calls", limit)
		}
		src.ResetPolls()
		var f feat.Feature
		var err error
		if pv := guard(func() { f, err = rd.Read() }); pv != nil {
			return got, pv
		}
		if src.Spun {
			return got, &simrt.Violation{Class: "hang", Site: "reader-spins", Text: "reader kept polling an exhausted stream (and swallowed the simulator's stop signal)"}
		}
		if err == io.EOF && isNilValue(f) {
			return got, nil
		}
		if err != nil {
			return got, viol(site+"-read-error", "record %d: Read returned error %v on text the writer produced", len(got), err)
		}
		if isNilValue(f) {
			return got, viol(site+"-nil", "record %d: Read returned (nil, nil)", len(got))
		}
		if pl.Format == "bed" {
			if bt := bedTypeOf(f); bt != pl.WriteType {
				return got, viol(site+"-type", "record %d: reader for BED%d returned %T", len(got), pl.WriteType, f)
			}
			cols, _ := bedColumns(f, pl.WriteType)
			got = append(got, fmt.Sprintf("bed%d %q", pl.WriteType, cols))
		} else {
			got = append(got, gffDescribe(f))
		}
	}
}

func compareFeats(site string, want, got []string) *simrt.Violation {
	if len(want) != len(got) {
		return viol(site+"-count", "wrote %d records, read back %d", len(want), len(got))
	}
	for i := range want {
		if want[i] != got[i] {
			return viol(site+"-fields", "record %d differs after write-then-read:\n  wrote %s\n  read  %s", i, clip300(want[i]), clip300(got[i]))
		}
	}
	return nil
}

func clip300(s string) string {
	if len(s) > 300 {
		return s[:300] + fmt.Sprintf("...(%d bytes)", len(s))
	}
	return s
}

func runC02(t *testing.T, c *Case, o RunOpts) *Result {
	noteCase(c)
	defer progress.Add(1)
	var pl C02Plan
	if err := json.Unmarshal(c.Plan, &pl); err != nil {
		return &Result{ToolErr: err.Error()}
	}
	res := &Result{Hash: planHash(c), Trivial: len(pl.Beds)+len(pl.Items) == 0}
	var text []byte
	var want []string
	var writes int
	var v *simrt.Violation
	if pv := guard(func() { text, want, writes, v = writeFeats(&pl) }); pv != nil {
		v = pv
	}
	res.Steps = writes
	if v != nil {
		res.Viol = v
		return res
	}
	if pl.Reject > 0 && want == nil && len(text) > 0 {
		return res // a refused call left a partial record behind: nothing to compare
	}
	src := simio.NewSource(text, pl.Delivery)
	got, v := readFeats(&pl, src, len(want)+3)
	res.Steps += src.Reads
	if v == nil {
		v = compareFeats("c02-"+pl.Format, want, got)
	}
	if v != nil && pl.Reject > 0 {
		v.Site += "-after-refused-call"
		v.Text = "after the medium refused one call at a record boundary: " + v.Text
		res.Fired = append(res.Fired, simrt.IORecord{Kind: "write-call-refused-once"})
	}
	if v == nil && pl.WriteFault > 0 && len(text) > 0 {
		hdr := 0
		if pl.Format == "gff" && pl.Header {
			hdr = len("##gff-version 2\n") // written by NewWriter, not by a Write call
		}
		if len(text) > hdr {
			sink := &simio.Sink{Faulty: true, FailAt: hdr + (pl.WriteFault-1)%(len(text)-hdr), FailFull: pl.WriteFault%3 == 0}
			res.Fired = append(res.Fired, simrt.IORecord{Kind: "write-fails-at-byte"})
			if pv := guard(func() { _, _, _, v = writeFeatsTo(&pl, sink) }); pv != nil {
				v = pv
			}
			res.Steps += sink.NCalls
		}
	}
	res.Viol = v
	return res
}

// hugeC02: a BED4 record with a 300 000-byte name between two small ones, a
// BED12 record with 30 000 blocks (also written at width 6), and a GFF
// feature with a 300 000-byte comment and a 300 000-byte attribute value.
func hugeC02() []*Case {
	long := strings.Repeat("n", 300000)
	small := BedRec{Chrom: "c", Start: 1, End: 5, Name: "n", Sizes: []int{1}, Starts: []int{0}}
	big := BedRec{Chrom: "c", Start: 1, End: 9, Name: long, Sizes: []int{1}, Starts: []int{0}}
	blocks := BedRec{Chrom: "c", Start: 0, End: 100000, Name: "b"}
	for i := 0; i < 30000; i++ {
		blocks.Sizes = append(blocks.Sizes, 1+i%7)
		blocks.Starts = append(blocks.Starts, 3*i)
	}
	d := simio.NoFault("block", 5)
	mk := func(pl C02Plan) *Case { return &Case{Prop: "C02", Kind: pl.Format, Plan: marshalPlan(pl)} }
	feat := GffItem{Kind: "feature", SeqName: "s", Source: "s", Feature: "f", Start: 1, End: 9, Frame: -1,
		Attrs: []GffAttr{{"a", "x"}, {"big", long}}, Comments: long}
	tail := GffItem{Kind: "feature", SeqName: "t", Source: "s", Feature: "f", Start: 1, End: 2, Frame: -1, NilAttrs: true}
	return []*Case{
		mk(C02Plan{Format: "bed", BedType: 12, WriteType: 4, Beds: []BedRec{small, big, small}, Delivery: d}),
		mk(C02Plan{Format: "bed", BedType: 12, WriteType: 12, Beds: []BedRec{small, blocks, small}, Delivery: d}),
		mk(C02Plan{Format: "bed", BedType: 12, WriteType: 6, Beds: []BedRec{blocks, small}, Delivery: d}),
		mk(C02Plan{Format: "gff", Width: 60, Items: []GffItem{tail, feat, tail}, Delivery: d}),
	}
}

func genPairC02(r *simrt.RNG) *Case {
	var pp PairPlan
	for n := r.Range(2, 3); n > 0; n-- {
		var pl C02Plan
		json.Unmarshal(genC02(r).Plan, &pl)
		if len(pl.Beds) > 3 {
			pl.Beds = pl.Beds[:3]
		}
		if len(pl.Items) > 3 {
			pl.Items = pl.Items[:3]
		}
		for i := range pl.Items {
			if len(pl.Items[i].Letters) > 30 {
				pl.Items[i].Letters = pl.Items[i].Letters[:30]
			}
		}
		pl.WriteFault, pl.Reject = 0, 0
		pl.Delivery = simio.NoFault([]string{"all", "uniform", "one"}[r.Intn(3)], r.Uint64())
		pp.Feat = append(pp.Feat, pl)
	}
	return &Case{Prop: "C02", Kind: "pair", Plan: marshalPlan(pp),
		Sched: Sched{Strategy: fmt.Sprintf("rw:%g", []float64{0.2, 0.5, 1}[r.Intn(3)]), Seed: r.Uint64()}}
}

func shrinkC02(c *Case) []*Case {
	if c.Kind == "pair" {
		return nil
	}
	var pl C02Plan
	json.Unmarshal(c.Plan, &pl)
	var out []*Case
	add := func(q C02Plan) {
		x := *c
		x.Plan = marshalPlan(q)
		out = append(out, &x)
	}
	for i := range pl.Beds {
		q := pl
		q.Beds = append(append([]BedRec(nil), pl.Beds[:i]...), pl.Beds[i+1:]...)
		add(q)
	}
	for i := range pl.Items {
		q := pl
		q.Items = append(append([]GffItem(nil), pl.Items[:i]...), pl.Items[i+1:]...)
		add(q)
	}
	for i, it := range pl.Items {
		mod := func(f func(x *GffItem)) {
			q := pl
			q.Items = append([]GffItem(nil), pl.Items...)
			x := q.Items[i]
			x.Attrs = append([]GffAttr(nil), x.Attrs...)
			f(&x)
			q.Items[i] = x
			add(q)
		}
		for j := range it.Attrs {
			j := j
			mod(func(x *GffItem) { x.Attrs = append(x.Attrs[:j], x.Attrs[j+1:]...) })
		}
		if it.Comments != "" {
			mod(func(x *GffItem) { x.Comments = "" })
		}
		if it.HasScore {
			mod(func(x *GffItem) { x.HasScore = false; x.Score = "" })
		}
		if len(it.Letters) > 1 {
			mod(func(x *GffItem) { x.Letters = x.Letters[:len(x.Letters)/2] })
		}
		if it.Kind == "feature" && (it.SeqName != "s" || it.Source != "s" || it.Feature != "s") {
			mod(func(x *GffItem) { x.SeqName, x.Source, x.Feature = "s", "s", "s" })
		}
		for j, a := range it.Attrs {
			j := j
			if a.Value != "" {
				mod(func(x *GffItem) { x.Attrs[j].Value = "" })
			}
		}
	}
	for i, b := range pl.Beds {
		if b.Chrom != "c" || b.Name != "n" {
			q := pl
			q.Beds = append([]BedRec(nil), pl.Beds...)
			q.Beds[i].Chrom, q.Beds[i].Name = "c", "n"
			add(q)
		}
	}
	if pl.Header {
		q := pl
		q.Header = false
		add(q)
	}
	if pl.Delivery.Profile != "all" || pl.Delivery.ZeroReads || pl.Delivery.EOFWithData {
		q := pl
		q.Delivery = simio.NoFault("all", 0)
		add(q)
	}
	return out
}

func init() {
	register(&Property{
		ID: "C02",
		Explore: func(t *testing.T, w *Worker, r *simrt.RNG) {
			w.Cold(t, genPairC02)
			if w.unit == 0 {
				// once per check: lines far longer than any plausible buffer
				for _, h := range hugeC02() {
					w.Report(h, runC02(t, h, RunOpts{}))
				}
			}
			if r.Intn(12) == 0 {
				c := genPairC02(r)
				w.Report(c, runPair(t, c, RunOpts{}))
				return
			}
			c := genC02(r)
			w.Report(c, runC02(t, c, RunOpts{}))
		},
		Run: func(t *testing.T, c *Case, o RunOpts) *Result {
			if c.Kind == "pair" {
				return runPair(t, c, o)
			}
			return runC02(t, c, o)
		},
		Shrink: shrinkC02,
	})
}
