package props

import (
	"encoding/gob"
	"encoding/json"
	"fmt"
	"io"
	"os"
	"runtime"
	"sort"
	"testing"

	"github.com/biogo/biogo/morass"

	twin "verif/harness/props/twin/props"
	"verif/harness/simrt"
)

// Shared client, reference model and oracles for the external sorter
// (C11 histories, C12 schedules, C13 faults and residue).

type intKey int

func (a intKey) Less(b interface{}) bool { return a < b.(intKey) }

type recKey struct {
	Key     int
	Serial  int
	Payload []byte
}

func (a recKey) Less(b interface{}) bool { return a.Key < b.(recKey).Key }

// regKey is an element type the application has registered with gob itself,
// which morass.New documents as supported ("morass will use the existing
// registration").
type regKey struct {
	Key    int
	Serial int
}

func (a regKey) Less(b interface{}) bool { return a.Key < b.(regKey).Key }

// RecKey has a namesake in package verif/harness/props/twin/props.
type RecKey struct {
	Key    int
	Serial int
}

func (a RecKey) Less(b interface{}) bool { return a.Key < b.(RecKey).Key }

func init() { gob.Register(regKey{}) }

// MCycle is one use cycle of a sorter.
type MCycle struct {
	Keys       []int `json:"keys"`
	Drain      int   `json:"drain"` // -1: pull to io.EOF; k>=0: pull k values only
	ExtraClear bool  `json:"extra_clear,omitempty"`
	// NoClear: when AutoClear has reset the sorter at the end of a full
	// drain, the next cycle starts without an explicit Clear.
	NoClear bool `json:"no_clear,omitempty"`
}

type MorassPlan struct {
	Chunk      int      `json:"chunk"`
	Concurrent bool     `json:"concurrent"`
	Struct     bool     `json:"struct"`
	Payload    int      `json:"payload,omitempty"`
	AutoClear  bool     `json:"auto_clear,omitempty"`
	AutoClean  bool     `json:"auto_clean,omitempty"`
	Cycles     []MCycle `json:"cycles"`
	CleanUp    bool     `json:"cleanup"`
	// Tolerant: faults are being injected; errors end the script instead of
	// being violations.
	Tolerant bool `json:"tolerant,omitempty"`
	// Prefix / DirName: the strings handed to ioutil.TempDir/TempFile ("" =
	// the defaults "vm" and the scratch directory itself). Any legal file
	// name is in the domain, glob metacharacters and blanks included.
	Prefix  string `json:"prefix,omitempty"`
	DirName string `json:"dir_name,omitempty"`
	// Reg: use the element type the application has itself registered with gob.
	Reg bool `json:"reg,omitempty"`
	// Twin: the history runs twice in one process, on two sorters whose
	// element types are distinct but print alike (props.RecKey in two packages).
	Twin bool `json:"twin,omitempty"`
	// Fresh: use an element type this process has not given to a sorter yet
	// (falls back to the plain struct type when the supply is exhausted, so a
	// replay in a fresh process sees a fresh type again).
	Fresh bool `json:"fresh,omitempty"`
	// DrainOn (fault runs with AutoClear/AutoClean): when a Pull of the last
	// cycle reports an error the caller goes on pulling until io.EOF - it
	// has drained the sorter - and the residue clauses are checked.
	DrainOn bool `json:"drain_on,omitempty"`
	// NoHB: the case is about size, not schedules: the happens-before
	// monitor is off (it costs a shadow word per element touched).
	NoHB bool `json:"no_hb,omitempty"`
	// Parallel: two callers on different goroutines each build a sorter of
	// their own (element types new to the process, if any are left) and run
	// the history on it: independent sorters must not interfere.
	Parallel bool `json:"parallel,omitempty"`
}

const morassWriterSite = "morass.go:"

type mvalue struct {
	key, serial int
}

// morassObs is what the client observed, for the post-run oracles.
type morassObs struct {
	lastErr    error // latest non-EOF error
	sawError   error // first non-EOF error returned by New/Push/Finalise/Pull/Clear
	errorOp    string
	errorStep  int
	completed  bool // the script ran to its end
	delivered  bool // every full drain delivered exactly the pushed multiset
	parent     string
	scratch    string
	residueErr string
	cycles     []cycleObs
}

// cycleObs is what happened in one use cycle (for the per-cycle fault oracle).
type cycleObs struct {
	start, end int // simulator steps
	err        bool
	errText    string
	delivered  bool
	drained    bool
}

func payloadFor(serial, n int) []byte {
	if n == 0 {
		return nil
	}
	b := make([]byte, n)
	x := uint32(serial)*2654435761 + 12345
	for i := range b {
		x = x*1664525 + 1013904223
		b[i] = byte(x >> 24)
	}
	return b
}

func sameBytes(a, b []byte) bool {
	if len(a) != len(b) {
		return false
	}
	for i := range a {
		if a[i] != b[i] {
			return false
		}
	}
	return true
}

// morassClient runs the plan against a real sorter, checking the reference
// model after every operation. fail reports a violation and stops the client.
func morassClient(sim *simrt.Sim, pl *MorassPlan, obs *morassObs, variant int) {
	fail := func(site, format string, a ...interface{}) {
		sim.Fail("oracle", site, fmt.Sprintf(format, a...))
		simrt.Abort()
	}
	ioErr := func(op string, err error) bool {
		// returns true if the script must stop because of a tolerated error
		if err == nil {
			return false
		}
		obs.lastErr = err
		if pl.Tolerant {
			if obs.sawError == nil {
				obs.sawError = err
				obs.errorOp = op
				obs.errorStep = sim.Steps()
			}
			return true
		}
		fail("morass-error@"+op, "%s returned an error although no fault was injected: %v", op, err)
		return true
	}
	obs.scratch = scratchDir()
	obs.parent = obs.scratch
	var proto interface{} = intKey(0)
	if pl.Struct {
		proto = recKey{}
	}
	prefix := "vm"
	if pl.Prefix != "" {
		prefix = pl.Prefix
	}
	if pl.DirName != "" {
		// residue is judged inside this directory, which holds only the sorter's
		obs.parent = obs.parent + "/" + pl.DirName
		if err := os.Mkdir(obs.parent, 0o755); err != nil {
			sim.ToolErr = "scratch directory: " + err.Error()
			return
		}
	}
	if pl.Reg {
		proto = regKey{}
	}
	var fresh *freshType
	if variant == 0 && pl.Fresh && nextFresh < len(freshTypes) {
		fresh = &freshTypes[nextFresh]
		nextFresh++
		proto = fresh.proto
		variant = 3
		sim.Probe("element_type_new_to_this_process")
	}
	switch variant {
	case 1:
		proto = RecKey{}
	case 2:
		proto = twin.RecKey{}
	}
	m, err := morass.New(proto, prefix, obs.parent, pl.Chunk, pl.Concurrent)
	if ioErr("New", err) {
		return
	}
	// New registers a finalizer that calls back into the woven package from
	// the runtime's finalizer goroutine, which the simulator does not own.
	defer runtime.SetFinalizer(m, nil)
	m.AutoClear = pl.AutoClear
	m.AutoClean = pl.AutoClean
	obs.delivered = true
	serial := 0
	stop := false
	var (
		dstInt  intKey
		dstRec  recKey
		dstReg  regKey
		dstRK   RecKey
		dstTwin twin.RecKey
	)
	for ci, cy := range pl.Cycles {
		ci, cy := ci, cy
		obs.cycles = append(obs.cycles, cycleObs{start: sim.Steps(), delivered: true})
		errored := func() bool {
			co := &obs.cycles[ci]
			remaining := map[mvalue]int{}
			for i, k := range cy.Keys {
				serial++
				var e morass.LessInterface
				if variant == 3 {
					e = fresh.mk(k, serial)
					remaining[mvalue{k, serial}]++
				} else if variant == 1 {
					e = RecKey{Key: k, Serial: serial}
					remaining[mvalue{k, serial}]++
				} else if variant == 2 {
					e = twin.RecKey{Key: k, Serial: serial}
					remaining[mvalue{k, serial}]++
				} else if pl.Reg {
					e = regKey{Key: k, Serial: serial}
					remaining[mvalue{k, serial}]++
				} else if pl.Struct {
					e = recKey{Key: k, Serial: serial, Payload: payloadFor(serial, pl.Payload)}
					remaining[mvalue{k, serial}]++
				} else {
					e = intKey(k)
					remaining[mvalue{k, 0}]++
				}
				if ioErr("Push", m.Push(e)) {
					return true
				}
				if pl.Concurrent && sim.AliveAt(morassWriterSite) >= 2 {
					sim.Probe("two_writers_active_during_push")
				}
				if got := m.Len(); got != int64(i+1) {
					fail("morass-len@push", "cycle %d: Len() = %d after %d pushes", ci, got, i+1)
				}
				if got := m.Pos(); got != int64(i+1) {
					fail("morass-pos@push", "cycle %d: Pos() = %d after %d pushes", ci, got, i+1)
				}
			}
			n := len(cy.Keys)
			if pl.Concurrent {
				switch alive := sim.AliveAt(morassWriterSite); {
				case alive >= 2:
					sim.Probe("finalise_entered_with_2_writers_in_flight")
				case alive == 1:
					sim.Probe("finalise_entered_with_writer_in_flight")
				}
			}
			if ci > 0 {
				prev := pl.Cycles[ci-1]
				pn := len(prev.Keys)
				switch {
				case pn < pl.Chunk && n >= pl.Chunk:
					sim.Probe("in_memory_cycle_then_spilling_cycle")
				case pn >= pl.Chunk && n < pl.Chunk:
					sim.Probe("spilling_cycle_then_in_memory_cycle")
				}
				if prev.Drain >= 0 && prev.Drain < pn {
					sim.Probe("partial_drain_then_clear")
				}
			}
			sim.Mark("finalise-enter")
			if ioErr("Finalise", m.Finalise()) {
				return true
			}
			sim.Mark("finalised")
			if got := m.Len(); got != int64(n) {
				fail("morass-len@finalise", "cycle %d: Len() = %d after Finalise of %d values", ci, got, n)
			}
			if got := m.Pos(); got != 0 {
				fail("morass-pos@finalise", "cycle %d: Pos() = %d after Finalise", ci, got)
			}
			want := cy.Drain
			if want < 0 || want > n {
				want = n
			}
			lastKey, have := 0, false
			earlyEOF := false
			for k := 0; k < want; k++ {
				var key, ser int
				var perr error
				var pay []byte
				// one destination variable serves all pulls, as in a caller's
				// read loop: Pull must overwrite whatever it holds
				switch {
				case variant == 3:
					key, ser, perr = fresh.pull(m)
				case variant == 1:
					perr = m.Pull(&dstRK)
					key, ser = dstRK.Key, dstRK.Serial
				case variant == 2:
					perr = m.Pull(&dstTwin)
					key, ser = dstTwin.Key, dstTwin.Serial
				case pl.Reg:
					perr = m.Pull(&dstReg)
					key, ser = dstReg.Key, dstReg.Serial
				case pl.Struct:
					perr = m.Pull(&dstRec)
					key, ser, pay = dstRec.Key, dstRec.Serial, dstRec.Payload
				default:
					perr = m.Pull(&dstInt)
					key = int(dstInt)
				}
				if perr == io.EOF {
					obs.delivered = false
					co.delivered = false
					if pl.Tolerant {
						// judged by the fault oracle: success reported throughout?
						earlyEOF = true
						break
					}
					fail("morass-lost", "cycle %d (chunk %d, concurrent %v): io.EOF after %d of %d pushed values; missing %s", ci, pl.Chunk, pl.Concurrent, k, n, describeRemaining(remaining))
				}
				if perr != nil && pl.Tolerant && pl.DrainOn && ci == len(pl.Cycles)-1 && (pl.AutoClean || pl.AutoClear) {
					ioErr("Pull", perr)
					// the caller skips what cannot be read and drains the sorter
					sim.Probe("pulled_on_after_a_pull_error")
					reached := false
					for extra := 0; extra <= n+2 && !reached; extra++ {
						var e2 error
						switch {
						case variant == 3:
							_, _, e2 = fresh.pull(m)
						case variant == 1:
							e2 = m.Pull(&dstRK)
						case variant == 2:
							e2 = m.Pull(&dstTwin)
						case pl.Reg:
							e2 = m.Pull(&dstReg)
						case pl.Struct:
							e2 = m.Pull(&dstRec)
						default:
							e2 = m.Pull(&dstInt)
						}
						reached = e2 == io.EOF
					}
					if reached {
						if pl.AutoClean {
							if d := sorterDirs(obs.parent); len(d) != 0 {
								fail("morass-residue@autoclean", "AutoClean set but the temporary directory still exists after a drain that skipped an unreadable run (cycle %d): %v", ci, d)
							}
						} else if f := sorterFiles(obs.parent); len(f) != 0 {
							fail("morass-residue@autoclear", "AutoClear set but run files remain after a drain that skipped an unreadable run (cycle %d): %v", ci, f)
						}
					}
					return true
				}
				if ioErr("Pull", perr) {
					return true
				}
				if have && key < lastKey {
					obs.delivered = false
					co.delivered = false
					if !pl.Tolerant {
						fail("morass-order", "cycle %d: pulled key %d after %d", ci, key, lastKey)
					}
				}
				lastKey, have = key, true
				mv := mvalue{key, ser}
				if remaining[mv] == 0 {
					obs.delivered = false
					co.delivered = false
					if !pl.Tolerant {
						fail("morass-foreign", "cycle %d: pulled value (key %d, serial %d) which was not pushed in this cycle or was already delivered", ci, key, ser)
					}
				} else {
					remaining[mv]--
					if remaining[mv] == 0 {
						delete(remaining, mv)
					}
				}
				if pl.Struct && !pl.Reg && variant == 0 && !sameBytes(pay, payloadFor(ser, pl.Payload)) {
					obs.delivered = false
					co.delivered = false
					if !pl.Tolerant {
						fail("morass-corrupt", "cycle %d: payload of serial %d corrupted", ci, ser)
					}
				}
				if !pl.Tolerant {
					if got := m.Pos(); got != int64(k+1) {
						fail("morass-pos@pull", "cycle %d: Pos() = %d after %d pulls", ci, got, k+1)
					}
					if got := m.Len(); got != int64(n) {
						fail("morass-len@pull", "cycle %d: Len() = %d while pulling %d values", ci, got, n)
					}
				}
			}
			if cy.Drain < 0 && !earlyEOF {
				// exhaustion must be reported as io.EOF
				var perr error
				switch {
				case variant == 3:
					_, _, perr = fresh.pull(m)
				case variant == 1:
					perr = m.Pull(&dstRK)
				case variant == 2:
					perr = m.Pull(&dstTwin)
				case pl.Reg:
					perr = m.Pull(&dstReg)
				case pl.Struct:
					perr = m.Pull(&dstRec)
				default:
					perr = m.Pull(&dstInt)
				}
				if perr == nil {
					obs.delivered = false
					co.delivered = false
					if !pl.Tolerant {
						fail("morass-extra", "cycle %d: Pull delivered a value after all %d pushed values had been pulled", ci, n)
					}
				} else if perr != io.EOF {
					if ioErr("Pull", perr) {
						return true
					}
				}
				if len(remaining) != 0 {
					obs.delivered = false
					co.delivered = false
				}
				co.drained = true
				sim.Mark("drained")
				// residue after a full drain (also in histories that saw faults)
				if co.delivered {
					if pl.AutoClean {
						if d := sorterDirs(obs.parent); len(d) != 0 {
							obs.residueErr = fmt.Sprintf("AutoClean set but the temporary directory still exists after the drain (cycle %d): %v", ci, d)
							fail("morass-residue@autoclean", "%s", obs.residueErr)
						}
					} else if pl.AutoClear {
						if f := sorterFiles(obs.parent); len(f) != 0 {
							obs.residueErr = fmt.Sprintf("AutoClear set but run files remain after the drain (cycle %d): %v", ci, f)
							fail("morass-residue@autoclear", "%s", obs.residueErr)
						}
					}
				}
			}
			last := ci == len(pl.Cycles)-1
			if cy.NoClear && pl.AutoClear && !pl.AutoClean && co.drained && co.delivered && !last {
				// AutoClear has begun the next cycle already
				if !pl.Tolerant {
					if m.Len() != 0 || m.Pos() != 0 {
						fail("morass-len@autoclear", "cycle %d: Len() = %d, Pos() = %d after the drain of an AutoClear sorter", ci, m.Len(), m.Pos())
					}
				}
			} else if !last || cy.ExtraClear {
				if ioErr("Clear", m.Clear()) {
					return true
				}
				if !pl.Tolerant {
					if m.Len() != 0 || m.Pos() != 0 {
						fail("morass-len@clear", "cycle %d: Len() = %d, Pos() = %d after Clear", ci, m.Len(), m.Pos())
					}
				}
			}
			return false
		}()
		obs.cycles[ci].end = sim.Steps()
		if errored {
			obs.cycles[ci].err = true
			obs.cycles[ci].errText = fmt.Sprint(obs.lastErr)
			// Recovery: Clear resets the sorter (and its error) for another
			// cycle. Only in sequential mode, where no writer can still be
			// running when a call has returned an error.
			if pl.Concurrent || ci == len(pl.Cycles)-1 {
				stop = true
				break
			}
			sim.Probe("recovered_with_clear_after_error")
			if m.Clear() != nil {
				stop = true
				break
			}
			obs.cycles[ci].end = sim.Steps()
		}
	}
	_ = stop
	if pl.CleanUp {
		cerr := m.CleanUp()
		if cerr != nil && !pl.Tolerant {
			fail("morass-error@CleanUp", "CleanUp failed: %v", cerr)
		}
		// "After CleanUp ... the sorter's temporary directory no longer
		// exists": whatever the history was and whatever CleanUp returns
		// (removal itself is never made to fail)
		if d := sorterDirs(obs.parent); len(d) != 0 {
			fail("morass-residue@cleanup", "temporary directory still exists after CleanUp (which returned %v): %v", cerr, d)
		}
	}
	obs.completed = true
}

func describeRemaining(rem map[mvalue]int) string {
	var ks []mvalue
	for k := range rem {
		ks = append(ks, k)
	}
	sort.Slice(ks, func(i, j int) bool {
		if ks[i].key != ks[j].key {
			return ks[i].key < ks[j].key
		}
		return ks[i].serial < ks[j].serial
	})
	s := ""
	for i, k := range ks {
		if i == 8 {
			s += " ..."
			break
		}
		s += fmt.Sprintf(" (key %d serial %d)x%d", k.key, k.serial, rem[k])
	}
	return s
}

// sorterDirs lists the sorter directories below the run's parent directory.
func sorterDirs(parent string) []string {
	ents, _ := os.ReadDir(parent)
	var out []string
	for _, e := range ents {
		out = append(out, e.Name())
	}
	return out
}

// sorterFiles lists the files inside the sorter directories.
func sorterFiles(parent string) []string {
	var out []string
	ents, _ := os.ReadDir(parent)
	for _, e := range ents {
		sub, _ := os.ReadDir(parent + "/" + e.Name())
		for _, f := range sub {
			out = append(out, e.Name()+"/"+f.Name())
		}
	}
	return out
}

func runMorass(t *testing.T, c *Case, o RunOpts) *Result {
	noteCase(c)
	defer progress.Add(1)
	var pl MorassPlan
	if err := json.Unmarshal(c.Plan, &pl); err != nil {
		return &Result{ToolErr: err.Error()}
	}
	total := 0
	for _, cy := range pl.Cycles {
		total += len(cy.Keys)
	}
	obs := &morassObs{}
	// the happens-before monitor is on wherever there is a second goroutine
	// (a sequential-mode sorter has none)
	res := execSim(t, c, o, 6000+200*total, pl.NoHB || (!pl.Concurrent && c.Prop != "C12"), func(sim *simrt.Sim) func() {
		if pl.Parallel {
			for i := 0; i < 2; i++ {
				o := obs
				if i > 0 {
					o = &morassObs{}
				}
				sim.Client(fmt.Sprintf("caller%d", i), func() { morassClient(sim, &pl, o, 0) })
			}
			return nil
		}
		sim.Client("caller", func() {
			if pl.Twin {
				// the same history on two sorters over look-alike element types
				morassClient(sim, &pl, obs, 1)
				if sim.Viol == nil {
					first := obs.scratch
					morassClient(sim, &pl, obs, 2)
					os.RemoveAll(first)
				}
				return
			}
			morassClient(sim, &pl, obs, 0)
		})
		return func() {
			if sim.Viol != nil {
				return
			}
			if pl.Tolerant {
				faultOracle(sim, &pl, obs)
			}
		}
	})
	if obs.scratch != "" {
		os.RemoveAll(obs.scratch)
	}
	return res
}

// faultOracle is the deliberately narrow oracle used when faults are
// injected: a fired fault of a listed kind must surface as an error from some
// later New/Push/Finalise/Pull, and a run in which no call reported an error
// must have delivered exactly what was pushed.
func faultOracle(sim *simrt.Sim, pl *MorassPlan, obs *morassObs) {
	listed := func(kind string) bool { return !simrt.Unfaultable(kind) }
	if len(obs.cycles) == 0 {
		// New failed (or nothing ran): the failure must have been reported
		for i := range sim.Fired {
			if listed(sim.Fired[i].Kind) && obs.sawError == nil {
				f := sim.Fired[i]
				sim.Fail("oracle", "morass-hidden-fault@"+f.Kind, fmt.Sprintf("an injected %s failure at %s was never reported", f.Kind, f.Site))
			}
		}
		return
	}
	for ci, co := range obs.cycles {
		var fired *simrt.IORecord
		for i := range sim.Fired {
			f := &sim.Fired[i]
			if listed(f.Kind) && f.Step >= co.start && (f.Step <= co.end || ci == len(obs.cycles)-1) {
				fired = f
				break
			}
		}
		if !co.err && !co.delivered {
			what := "no fault fired in this cycle"
			if fired != nil {
				what = fmt.Sprintf("after an injected %s failure at %s", fired.Kind, fired.Site)
			}
			sim.Fail("oracle", "morass-silent-loss", fmt.Sprintf("cycle %d: every call reported success but the values delivered differ from the values pushed (%s)", ci, what))
			return
		}
		if fired == nil && co.err && ci > 0 && !pl.Concurrent {
			// sequential mode: the previous cycle's error was answered with a
			// successful Clear, nothing failed in this cycle, and yet a call
			// reported an error: "whatever earlier cycles did" (C11) includes
			// cycles that met an I/O failure
			sim.Fail("oracle", "morass-stale-error", fmt.Sprintf("cycle %d: a call returned an error (%s) although no I/O operation of this cycle failed and the previous cycle's failure had been cleared with Clear", ci, co.errText))
			return
		}
		if fired != nil && !co.err {
			sim.Fail("oracle", "morass-hidden-fault@"+fired.Kind, fmt.Sprintf("cycle %d: an injected %s failure at %s (I/O #%d, step %d) was never reported by any later Push, Finalise or Pull of the cycle", ci, fired.Kind, fired.Site, fired.Ordinal, fired.Step))
			return
		}
	}
}
