package props

import (
	"crypto/sha256"
	"encoding/hex"
	"encoding/json"
	"fmt"
	"io"
	"math"
	"reflect"
	"runtime"
	"strings"
	"testing"

	"github.com/biogo/biogo/alphabet"
	"github.com/biogo/biogo/io/seqio"
	"github.com/biogo/biogo/io/seqio/fasta"
	"github.com/biogo/biogo/io/seqio/fastq"
	"github.com/biogo/biogo/seq"
	"github.com/biogo/biogo/seq/linear"

	"verif/harness/simio"
	"verif/harness/simrt"
)

// ---------------------------------------------------------------------------
// shared helpers for the stream-seam properties (C01-C04)

func planHash(c *Case) string {
	h := sha256.New()
	h.Write([]byte(c.Kind))
	h.Write(c.Plan)
	return hex.EncodeToString(h.Sum(nil))
}

func viol(site, format string, a ...interface{}) *simrt.Violation {
	return &simrt.Violation{Class: "oracle", Site: site, Text: fmt.Sprintf(format, a...)}
}

// guard runs f, turning a panic into a violation (or, for the stream budget,
// into a "hang" violation).
func guard(f func()) (v *simrt.Violation) {
	defer func() {
		if r := recover(); r != nil {
			if b, ok := r.(simio.BudgetExceeded); ok {
				v = &simrt.Violation{Class: "hang", Site: "reader-spins", Text: b.String()}
				return
			}
			site := panicFrame()
			v = &simrt.Violation{Class: "panic", Site: site, Text: fmt.Sprintf("panic: %v at %s", r, site)}
		}
	}()
	f()
	return nil
}

// panicFrame names the innermost biogo function on the panicking stack.
func panicFrame() string {
	pcs := make([]uintptr, 64)
	n := runtime.Callers(3, pcs)
	frames := runtime.CallersFrames(pcs[:n])
	for {
		f, more := frames.Next()
		if strings.Contains(f.Function, "github.com/biogo/biogo/") && !strings.Contains(f.Function, "handlePanic") {
			fn := f.Function[strings.LastIndex(f.Function, "/")+1:]
			return fn
		}
		if !more {
			break
		}
	}
	return "unknown"
}

func isNilValue(x interface{}) bool {
	if x == nil {
		return true
	}
	v := reflect.ValueOf(x)
	switch v.Kind() {
	case reflect.Ptr, reflect.Map, reflect.Slice, reflect.Interface, reflect.Func, reflect.Chan:
		return v.IsNil()
	}
	return false
}

const nameChars = "abcXYZ019_.:|>@+#;=-/\\*~!"
const descChars = "abcXYZ019_.:|>@+#;=-/ \t*~!"

func genName(r *simrt.RNG) string {
	n := r.Pick(1, 1, 2, 3, 8, 30)
	if r.Intn(25) == 0 {
		n = 0
	}
	if r.Intn(40) == 0 {
		n = r.Pick(4094, 4095, 4096, 4097, 8192, r.Range(4000, 9000)) // header lines around the reader's buffer size
	}
	b := make([]byte, n)
	for i := range b {
		if r.Intn(3) == 0 {
			b[i] = byte(33 + r.Intn(94)) // any printable non-space ASCII
		} else {
			b[i] = nameChars[r.Intn(len(nameChars))]
		}
	}
	return string(b)
}

func genDesc(r *simrt.RNG) string {
	if r.Intn(3) == 0 {
		return ""
	}
	n := r.Pick(1, 2, 5, 20, 60)
	if r.Intn(40) == 0 {
		n = r.Pick(4090, 4095, 4096, 8192, r.Range(4000, 9000))
	}
	b := make([]byte, n)
	for i := range b {
		if r.Intn(3) == 0 {
			b[i] = byte(32 + r.Intn(95))
		} else {
			b[i] = descChars[r.Intn(len(descChars))]
		}
	}
	return strings.TrimSpace(string(b))
}

var alphaLetters = map[string]string{
	"dna":     "acgtACGT",
	"dnax":    "-acmgrsvtwyhkdbnACMGRSVTWYHKDBN",
	"rna":     "acguACGU",
	"protein": "-abcdefghijklmnpqrstvwxyz*ABCDEFGHIJKLMNPQRSTVWXYZ",
}

var alphaOf = map[string]alphabet.Alphabet{
	"dna":     alphabet.DNA,
	"dnax":    alphabet.DNAredundant,
	"rna":     alphabet.RNA,
	"protein": alphabet.Protein,
}

var alphaNames = []string{"dna", "dnax", "rna", "protein"}

func genLen(r *simrt.RNG) int {
	switch x := r.Intn(100); {
	case x < 8:
		return 0
	case x < 16:
		return 1
	case x < 70:
		return r.Range(2, 120)
	case x < 80:
		return r.Pick(r.Range(4093, 4097), r.Range(4090, 4100), r.Range(8189, 8193), r.Range(8186, 8198), r.Range(12285, 12289), 16384, 16385)
	case x < 84:
		return r.Range(200, 3000)
	case x < 88:
		// powers of two and their neighbours: favourite batch and buffer sizes
		return r.Pick(64, 128, 256, 512, 1024, 2048) + r.Pick(-1, 0, 0, 0, 1)
	case x < 95:
		return r.Range(8190, 8300)
	}
	if r.Intn(8) == 0 {
		return r.Pick(65535, 65536, 65537, 70000, 131072, 1<<17+1) // beyond common 64 KiB token limits
	}
	return r.Range(12000, 20000)
}

func genLetters(r *simrt.RNG, alpha string, n int) string {
	set := alphaLetters[alpha]
	b := make([]byte, n)
	if n > 300 {
		// long sequences: a cheap pattern with random phase
		ph := r.Intn(len(set))
		for i := range b {
			b[i] = set[(i*7+ph+i/13)%len(set)]
		}
		return string(b)
	}
	for i := range b {
		b[i] = set[r.Intn(len(set))]
	}
	return string(b)
}

// ---------------------------------------------------------------------------
// C01

type SeqRec struct {
	Name    string `json:"name"`
	Desc    string `json:"desc,omitempty"`
	Letters string `json:"letters"`
	Quals   []int  `json:"quals,omitempty"`
	// GenN > 0: Letters (and Quals) are a deterministic pattern of that length,
	// expanded when the case is run (keeps megabyte records out of the plan).
	GenN int `json:"gen_n,omitempty"`
}

// expand materialises GenN records.
func (pl *C01Plan) expand() {
	for i := range pl.Recs {
		rec := &pl.Recs[i]
		if rec.GenN <= 0 || len(rec.Letters) == rec.GenN {
			continue
		}
		set := alphaLetters[pl.Alpha]
		b := make([]byte, rec.GenN)
		for j := range b {
			b[j] = set[(j*7+j/13+i)%len(set)]
		}
		rec.Letters = string(b)
		if pl.Qual && pl.Format == "fastq" {
			lo, hi := qRange(alphabet.Encoding(pl.Enc))
			rec.Quals = make([]int, rec.GenN)
			for j := range rec.Quals {
				rec.Quals[j] = lo + (j*5)%(hi-lo+1)
			}
		}
	}
}

type C01Plan struct {
	Format string   `json:"format"` // fasta | fastq
	Width  int      `json:"width,omitempty"`
	QID    bool     `json:"qid,omitempty"`
	Enc    int      `json:"enc,omitempty"`
	Qual   bool     `json:"qual"` // quality-carrying sequence type
	Alpha  string   `json:"alpha"`
	Recs   []SeqRec `json:"recs"`
	// SeqPrefix != "": FASTA writer and reader are both configured with this
	// sequence-line prefix (a public field of both; GFF uses "##").
	SeqPrefix string `json:"seq_prefix,omitempty"`
	// IDPrefix != "": FASTA writer and reader are both configured with this
	// header marker (a public field of both; GFF's inline sequences use
	// "##DNA " and the like on the writer side).
	IDPrefix string `json:"id_prefix,omitempty"`

	// TemplateAlpha != "": the reader's template declares this alphabet while
	// the letters come from Alpha (the readers do not validate letters);
	// TemplateOffset > 0: the template carries a start offset.
	TemplateAlpha  string `json:"template_alpha,omitempty"`
	TemplateOffset int    `json:"template_offset,omitempty"`

	// ByteDst: the destination is an io.ByteWriter as well as an io.Writer
	// (as bufio.Writer and bytes.Buffer are); otherwise it offers only Write.
	ByteDst bool `json:"byte_dst,omitempty"`

	tmpl   seqio.SequenceAppender // a template shared with other readers (multi-instance cases)
	shared *sharedPrefixes        // marker slices shared with other writers (multi-instance cases)
	// TemplateCap > 0: the reader's template is empty but preallocated.
	TemplateCap int            `json:"template_cap,omitempty"`
	Delivery    simio.Delivery `json:"delivery"`
	// WriteFault > 0: additionally write the records to a medium that fails
	// after WriteFault-1 bytes (0 = no write-fault pass).
	WriteFault int `json:"write_fault,omitempty"`
	// Reject > 0: the medium refuses the first call of the Write of record
	// Reject-1 once (nothing accepted, temporary error) and works again
	// afterwards; with Retry the caller writes that record again. The file
	// must then hold exactly the records whose Write succeeded.
	Reject int `json:"reject,omitempty"`
	// RejectOffset > 0: it is a later call of that Write that is refused (the
	// record is torn if the writer stops there, as it should).
	RejectOffset int  `json:"reject_offset,omitempty"`
	Retry        bool `json:"retry,omitempty"`
}

var phredEncodings = []alphabet.Encoding{alphabet.Sanger, alphabet.Illumina1_3, alphabet.Illumina1_5, alphabet.Illumina1_8, alphabet.Illumina1_9}

// qRange is the encoding's printable score range, stated from the format
// definitions (Phred+33: '!'..'~'; Phred+64: '@'..'~'; Illumina 1.5: 'B'..'~').
func qRange(e alphabet.Encoding) (lo, hi int) {
	switch e {
	case alphabet.Sanger, alphabet.Illumina1_8, alphabet.Illumina1_9:
		return 0, 93
	case alphabet.Illumina1_3:
		return 0, 62
	case alphabet.Illumina1_5:
		return 2, 62
	}
	return 0, 0
}

func genSeqRecs(r *simrt.RNG, alpha string, quals bool, enc alphabet.Encoding) []SeqRec {
	n := r.Pick(0, 1, 1, 2, 3, 6)
	var recs []SeqRec
	for i := 0; i < n; i++ {
		ln := genLen(r)
		if n > 2 && ln > 5000 {
			ln = r.Range(0, 100)
		}
		rec := SeqRec{Name: genName(r), Desc: genDesc(r), Letters: genLetters(r, alpha, ln)}
		if quals {
			lo, hi := qRange(enc)
			rec.Quals = make([]int, ln)
			mode := r.Intn(4)
			for j := range rec.Quals {
				switch mode {
				case 0:
					rec.Quals[j] = r.Range(lo, hi)
				case 1:
					rec.Quals[j] = r.Pick(lo, hi, lo+1, hi-1)
				case 2:
					// scores whose characters are '@' and '+', the record markers
					rec.Quals[j] = r.Pick(clampInt('@'-offsetOf(enc), lo, hi), clampInt('+'-offsetOf(enc), lo, hi))
				default:
					rec.Quals[j] = lo + (j*5)%(hi-lo+1)
				}
			}
		}
		recs = append(recs, rec)
	}
	return recs
}

func offsetOf(e alphabet.Encoding) int {
	switch e {
	case alphabet.Illumina1_3, alphabet.Illumina1_5:
		return 64
	}
	return 33
}

func clampInt(v, lo, hi int) int {
	if v < lo {
		return lo
	}
	if v > hi {
		return hi
	}
	return v
}

func genC01(r *simrt.RNG) *Case {
	pl := C01Plan{Alpha: alphaNames[r.Intn(len(alphaNames))], Delivery: simio.PickDelivery(r)}
	enc := phredEncodings[r.Intn(len(phredEncodings))]
	pl.Enc = int(enc)
	if r.Bool() {
		pl.Format = "fasta"
		pl.Width = r.Pick(1, 2, 3, 60, 80, r.Range(1, 200), 4094, 4095, 4096, 4097, 8191, 8192, 8193, 100000)
		if r.Intn(12) == 0 {
			// "any positive line width": the extremes of int
			pl.Width = r.Pick(math.MaxInt, math.MaxInt-1, math.MaxInt-r.Intn(64), math.MaxInt/2, math.MaxInt/2+1, math.MaxInt32, math.MaxInt32+1, 1<<62)
		}
		pl.Qual = r.Intn(4) == 0
		pl.Recs = genSeqRecs(r, pl.Alpha, false, enc)
		if r.Intn(8) == 0 {
			pl.SeqPrefix = []string{"##", ";", "##"}[r.Intn(3)]
		}
		if r.Intn(8) == 0 {
			pl.IDPrefix = []string{">>", "##DNA:", ">gi|", "@", ";;"}[r.Intn(5)] // blank-free: the reader splits the header line at its first blank
		}
	} else {
		pl.Format = "fastq"
		pl.QID = r.Bool()
		pl.Qual = r.Intn(8) != 0
		pl.Recs = genSeqRecs(r, pl.Alpha, pl.Qual, enc)
	}
	if r.Intn(6) == 0 {
		pl.TemplateCap = r.Pick(1, 16, 1024, 5000)
	}
	if r.Intn(10) == 0 {
		pl.TemplateAlpha = alphaNames[r.Intn(len(alphaNames))]
	}
	if r.Intn(10) == 0 {
		pl.TemplateOffset = r.Pick(1, 2, 7, 100)
	}
	pl.ByteDst = r.Intn(4) == 0
	if r.Intn(3) == 0 {
		pl.WriteFault = 1 + r.Intn(1<<20)
		if r.Bool() {
			pl.WriteFault = 1 + r.Intn(200)
		}
	} else if len(pl.Recs) > 0 && r.Intn(6) == 0 {
		pl.Reject = 1 + r.Intn(len(pl.Recs))
		if r.Intn(3) == 0 {
			pl.RejectOffset = r.Range(1, 6) // a later call of the same Write
		}
		pl.Retry = r.Bool()
	}
	return &Case{Prop: "C01", Kind: pl.Format, Plan: marshalPlan(pl)}
}

func buildSeq(rec SeqRec, pl *C01Plan) seq.Sequence {
	alpha := alphaOf[pl.Alpha]
	if pl.Qual {
		ql := make([]alphabet.QLetter, len(rec.Letters))
		for i := range ql {
			ql[i].L = alphabet.Letter(rec.Letters[i])
			if i < len(rec.Quals) {
				ql[i].Q = alphabet.Qphred(rec.Quals[i])
			}
		}
		s := linear.NewQSeq(rec.Name, ql, alpha, alphabet.Encoding(pl.Enc))
		s.Desc = rec.Desc
		return s
	}
	s := linear.NewSeq(rec.Name, alphabet.BytesToLetters([]byte(rec.Letters)), alpha)
	s.Desc = rec.Desc
	return s
}

// sharedPrefixes: marker slices with spare capacity that several writers are
// configured with (a writer may read its markers, never write behind them).
type sharedPrefixes struct{ id, seq []byte }

func (pl *C01Plan) dst(sink *simio.Sink) io.Writer {
	if pl.ByteDst {
		return sink
	}
	return simio.Plain{W: sink}
}

// configure sets the plan's markers on a FASTA writer.
func (pl *C01Plan) configure(fw *fasta.Writer) {
	if pl.SeqPrefix != "" {
		fw.SeqPrefix = []byte(pl.SeqPrefix)
	}
	if pl.IDPrefix != "" {
		fw.IDPrefix = []byte(pl.IDPrefix)
	}
	if pl.shared != nil {
		if pl.SeqPrefix != "" {
			fw.SeqPrefix = pl.shared.seq
		}
		if pl.IDPrefix != "" {
			fw.IDPrefix = pl.shared.id
		}
	}
}

func seqTemplate(pl *C01Plan) seqio.SequenceAppender {
	if pl.tmpl != nil {
		return pl.tmpl
	}
	alpha := alphaOf[pl.Alpha]
	if pl.TemplateAlpha != "" {
		alpha = alphaOf[pl.TemplateAlpha]
	}
	if pl.Qual {
		t := linear.NewQSeq("", nil, alpha, alphabet.Encoding(pl.Enc))
		if pl.TemplateCap > 0 {
			t.Seq = make(alphabet.QLetters, 0, pl.TemplateCap) // an empty template with room to grow
		}
		t.Offset = pl.TemplateOffset
		return t
	}
	t := linear.NewSeq("", nil, alpha)
	if pl.TemplateCap > 0 {
		t.Seq = make(alphabet.Letters, 0, pl.TemplateCap)
	}
	t.Offset = pl.TemplateOffset
	return t
}

// writeSeqs writes the records through the real writer into a Sink and checks
// the byte-count clause against the ledger.
func writeSeqs(pl *C01Plan) ([]byte, int, *simrt.Violation) {
	return writeSeqsTo(pl, &simio.Sink{})
}

// writeSeqsTo also serves the write-fault pass: with a failing sink the only
// requirement is the byte-count clause, for the failing call too.
func writeSeqsTo(pl *C01Plan, sink *simio.Sink) ([]byte, int, *simrt.Violation) {
	var w seqio.Writer
	if pl.Format == "fasta" {
		fw := fasta.NewWriter(pl.dst(sink), pl.Width)
		pl.configure(fw)
		w = fw
	} else {
		fw := fastq.NewWriter(pl.dst(sink))
		fw.QID = pl.QID
		w = fw
	}
	for i, rec := range pl.Recs {
		before := len(sink.Buf)
		n, err := w.Write(buildSeq(rec, pl))
		if err != nil && !sink.Failed {
			return nil, 0, viol("c01-"+pl.Format+"-write-error", "record %d: Write failed on a healthy sink: %v", i, err)
		}
		if n != len(sink.Buf)-before {
			what := ""
			if sink.Failed {
				what = fmt.Sprintf(" (the sink failed after %d bytes in total; Write returned %v)", sink.FailAt, err)
				return nil, 0, viol("c01-"+pl.Format+"-bytecount-on-failure", "record %d: Write returned n=%d but %d bytes were emitted%s", i, n, len(sink.Buf)-before, what)
			}
			return nil, 0, viol("c01-"+pl.Format+"-bytecount", "record %d: Write returned n=%d but %d bytes were emitted", i, n, len(sink.Buf)-before)
		}
		if sink.Failed {
			break
		}
	}
	return sink.Buf, sink.NCalls, nil
}

// runReject: a destination that refuses one call at a record boundary.
func runReject(pl *C01Plan, res *Result) *simrt.Violation {
	site := "c01-" + pl.Format
	sink := &simio.Sink{}
	var w seqio.Writer
	if pl.Format == "fasta" {
		fw := fasta.NewWriter(pl.dst(sink), pl.Width)
		pl.configure(fw)
		w = fw
	} else {
		fw := fastq.NewWriter(pl.dst(sink))
		fw.QID = pl.QID
		w = fw
	}
	var written []SeqRec
	var v *simrt.Violation
	torn := false
	pv := guard(func() {
		for i := 0; i < len(pl.Recs); i++ {
			rec := pl.Recs[i]
			if i == pl.Reject-1 && !sink.Rejected {
				sink.RejectCall = sink.NCalls + 1 + pl.RejectOffset
			}
			before := len(sink.Buf)
			n, err := w.Write(buildSeq(rec, pl))
			if n != len(sink.Buf)-before {
				v = viol(site+"-bytecount-on-failure", "record %d: Write returned n=%d but %d bytes were emitted (the medium refused one call; Write returned %v)", i, n, len(sink.Buf)-before, err)
				return
			}
			if err != nil {
				if len(sink.Buf) != before {
					torn = true // bytes of a failed record reached the medium: nothing more can be asked
					return
				}
				if pl.Retry {
					pl.Retry = false
					i-- // the caller writes the same record again
				}
				continue
			}
			written = append(written, rec)
		}
	})
	res.Steps = sink.NCalls
	if pv != nil {
		return pv
	}
	if v != nil || !sink.Rejected || torn {
		return v
	}
	res.Fired = append(res.Fired, simrt.IORecord{Kind: "write-call-refused-once"})
	q := *pl
	q.Recs = written
	src := simio.NewSource(sink.Buf, pl.Delivery)
	got, v := readSeqs(&q, src, len(written)+3)
	res.Steps += src.Reads
	if v == nil {
		v = compareSeqs(&q, got)
	}
	if v != nil {
		if pl.RejectOffset > 0 {
			v.Text = fmt.Sprintf("after the medium refused call %d of one Write (every Write that returned nil counts as written): ", pl.RejectOffset+1) + v.Text
		} else {
			v.Text = "after the medium refused one call at a record boundary (the failed Write emitted nothing): " + v.Text
		}
		v.Site += "-after-refused-call"
	}
	return v
}

type gotSeq struct {
	name, desc, letters string
	quals               []int
	hasQ                bool
}

// readSeqs reads all records with the real reader until io.EOF.
func readSeqs(pl *C01Plan, src *simio.Source, limit int) (recs []gotSeq, v *simrt.Violation) {
	var rd seqio.Reader
	if pl.Format == "fasta" {
		fr := fasta.NewReader(src, seqTemplate(pl))
		if pl.SeqPrefix != "" {
			fr.SeqPrefix = []byte(pl.SeqPrefix)
		}
		if pl.IDPrefix != "" {
			fr.IDPrefix = []byte(pl.IDPrefix)
		}
		rd = fr
	} else {
		rd = fastq.NewReader(src, seqTemplate(pl))
	}
	site := "c01-" + pl.Format
	var held []seq.Sequence
	defer func() { recs = extractSeqs(held) }()
	for calls := 0; ; calls++ {
		if calls > limit {
			return recs, viol(site+"-no-eof", "reader did not reach io.EOF within %d calls", limit)
		}
		src.ResetPolls()
		var s seq.Sequence
		var err error
		if pv := guard(func() { s, err = rd.Read() }); pv != nil {
			return recs, pv
		}
		if src.Spun {
			return recs, &simrt.Violation{Class: "hang", Site: "reader-spins", Text: "reader kept polling an exhausted stream (and swallowed the simulator's stop signal)"}
		}
		if err == io.EOF && isNilValue(s) {
			return recs, nil
		}
		if err != nil {
			return recs, viol(site+"-read-error", "record %d: Read returned error %v on text the writer produced", len(recs), err)
		}
		if isNilValue(s) {
			return recs, viol(site+"-nil", "record %d: Read returned (nil, nil)", len(recs))
		}
		switch s.(type) {
		case *linear.Seq, *linear.QSeq:
		default:
			return recs, viol(site+"-type", "unexpected sequence type %T", s)
		}
		// The record is kept as returned and looked at only when all reads
		// are done, as a caller collecting the records of a file would: a
		// later Read must not disturb an earlier record.
		held = append(held, s)
	}
}

func extractSeqs(held []seq.Sequence) []gotSeq {
	var recs []gotSeq
	for _, s := range held {
		g := gotSeq{name: s.Name(), desc: s.Description()}
		switch x := s.(type) {
		case *linear.Seq:
			g.letters = string(alphabet.LettersToBytes(x.Seq))
		case *linear.QSeq:
			b := make([]byte, len(x.Seq))
			g.quals = make([]int, len(x.Seq))
			g.hasQ = true
			for i, ql := range x.Seq {
				b[i] = byte(ql.L)
				g.quals[i] = int(ql.Q)
			}
			g.letters = string(b)
		}
		recs = append(recs, g)
	}
	return recs
}

func clip(s string) string {
	if len(s) > 60 {
		return fmt.Sprintf("%q...(%d bytes)", s[:60], len(s))
	}
	return fmt.Sprintf("%q", s)
}

func compareSeqs(pl *C01Plan, got []gotSeq) *simrt.Violation {
	site := "c01-" + pl.Format
	if len(got) != len(pl.Recs) {
		return viol(site+"-count", "wrote %d records, read back %d", len(pl.Recs), len(got))
	}
	for i, rec := range pl.Recs {
		g := got[i]
		if g.name != rec.Name {
			return viol(site+"-name", "record %d: name %s read back as %s", i, clip(rec.Name), clip(g.name))
		}
		if g.desc != rec.Desc {
			return viol(site+"-desc", "record %d: description %s read back as %s", i, clip(rec.Desc), clip(g.desc))
		}
		if g.letters != rec.Letters {
			return viol(site+"-letters", "record %d: %d letters %s read back as %d letters %s", i, len(rec.Letters), clip(rec.Letters), len(g.letters), clip(g.letters))
		}
		if pl.Format == "fastq" && pl.Qual {
			if !g.hasQ || len(g.quals) != len(rec.Quals) {
				return viol(site+"-qual", "record %d: %d quality scores read back as %d", i, len(rec.Quals), len(g.quals))
			}
			for j := range rec.Quals {
				if g.quals[j] != rec.Quals[j] {
					return viol(site+"-qual", "record %d: quality %d at position %d read back as %d (encoding %d)", i, rec.Quals[j], j, g.quals[j], pl.Enc)
				}
			}
		}
	}
	return nil
}

func runC01(t *testing.T, c *Case, o RunOpts) *Result {
	noteCase(c)
	defer progress.Add(1)
	var pl C01Plan
	if err := json.Unmarshal(c.Plan, &pl); err != nil {
		return &Result{ToolErr: err.Error()}
	}
	pl.expand()
	res := &Result{Hash: planHash(c), Trivial: len(pl.Recs) == 0}
	if pl.Reject > 0 {
		res.Viol = runReject(&pl, res)
		return res
	}
	var text []byte
	var writes int
	var v *simrt.Violation
	if pv := guard(func() { text, writes, v = writeSeqs(&pl) }); pv != nil {
		v = pv
	}
	res.Steps = writes
	if v != nil {
		res.Viol = v
		return res
	}
	src := simio.NewSource(text, pl.Delivery)
	got, v := readSeqs(&pl, src, len(pl.Recs)+2)
	res.Steps += src.Reads
	if v == nil {
		v = compareSeqs(&pl, got)
	}
	if v == nil && pl.WriteFault > 0 && len(text) > 0 {
		sink := &simio.Sink{Faulty: true, FailAt: (pl.WriteFault - 1) % len(text), FailFull: pl.WriteFault%3 == 0}
		res.Fired = append(res.Fired, simrt.IORecord{Kind: "write-fails-at-byte"})
		if pv := guard(func() { _, _, v = writeSeqsTo(&pl, sink) }); pv != nil {
			v = pv
		}
		res.Steps += sink.NCalls
	}
	res.Viol = v
	return res
}

// ---------------------------------------------------------------------------
// Independent writers and readers on different goroutines must not
// interfere (package-level pools, shared backing arrays): two or three
// complete round trips run as clients of the simulator, which decides the
// interleaving at every call into the medium (the sink yields before it
// consumes the bytes, the source before it hands them out).

type PairPlan struct {
	Seq  []C01Plan `json:"seq,omitempty"`
	Feat []C02Plan `json:"feat,omitempty"`
	// ShareTemplate: all sequence readers are given the same template object
	// (readers only ever clone their template).
	ShareTemplate bool `json:"share_template,omitempty"`
}

func smallSeqPlan(r *simrt.RNG) C01Plan {
	var pl C01Plan
	json.Unmarshal(genC01(r).Plan, &pl)
	if len(pl.Recs) > 3 {
		pl.Recs = pl.Recs[:3]
	}
	for i := range pl.Recs {
		rec := &pl.Recs[i]
		if len(rec.Letters) > 40 {
			rec.Letters = rec.Letters[:r.Range(1, 40)]
		}
		if len(rec.Quals) > len(rec.Letters) {
			rec.Quals = rec.Quals[:len(rec.Letters)]
		}
		if len(rec.Name) > 12 {
			rec.Name = rec.Name[:12]
		}
		if len(rec.Desc) > 20 {
			rec.Desc = strings.TrimSpace(rec.Desc[:20])
		}
	}
	pl.WriteFault, pl.Reject = 0, 0
	pl.Delivery = simio.NoFault([]string{"all", "uniform", "one"}[r.Intn(3)], r.Uint64())
	return pl
}

func genPairC01(r *simrt.RNG) *Case {
	var pp PairPlan
	for n := r.Range(2, 3); n > 0; n-- {
		pp.Seq = append(pp.Seq, smallSeqPlan(r))
	}
	if r.Intn(3) == 0 {
		// the same kind of file several times over, read with one shared template
		pp.ShareTemplate = true
		for i := 1; i < len(pp.Seq); i++ {
			recs := pp.Seq[i].Recs
			pp.Seq[i] = pp.Seq[0]
			pp.Seq[i].Recs = nil
			for _, rec := range genSeqRecs(r, pp.Seq[0].Alpha, pp.Seq[0].Format == "fastq" && pp.Seq[0].Qual, alphabet.Encoding(pp.Seq[0].Enc)) {
				if len(pp.Seq[i].Recs) < 3 && len(rec.Letters) <= 40 && len(rec.Name) <= 12 && len(rec.Desc) <= 20 && rec.GenN == 0 {
					pp.Seq[i].Recs = append(pp.Seq[i].Recs, rec)
				}
			}
			_ = recs
			pp.Seq[i].Delivery = simio.NoFault([]string{"all", "uniform", "one"}[r.Intn(3)], r.Uint64())
		}
	}
	return &Case{Prop: "C01", Kind: "pair", Plan: marshalPlan(pp),
		Sched: Sched{Strategy: fmt.Sprintf("rw:%g", []float64{0.2, 0.5, 1}[r.Intn(3)]), Seed: r.Uint64()}}
}

// genColdC01: the process's first use of the sequence formats, by several
// instances at once: two FASTQ round trips with qualities and a FASTA one.
func genColdC01(r *simrt.RNG) *Case {
	var pp PairPlan
	want := []string{"fastq", "fastq", "fasta"}
	for _, f := range want {
		pl := smallSeqPlan(r)
		for try := 0; try < 40 && (pl.Format != f || (f == "fastq" && !pl.Qual) || len(pl.Recs) == 0); try++ {
			pl = smallSeqPlan(r)
		}
		pp.Seq = append(pp.Seq, pl)
	}
	return &Case{Prop: "C01", Kind: "pair", Plan: marshalPlan(pp),
		Sched: Sched{Strategy: fmt.Sprintf("rw:%g", []float64{0.2, 0.5, 1}[r.Intn(3)]), Seed: r.Uint64()}}
}

func runPair(t *testing.T, c *Case, o RunOpts) *Result {
	noteCase(c)
	defer progress.Add(1)
	var pp PairPlan
	if err := json.Unmarshal(c.Plan, &pp); err != nil {
		return &Result{ToolErr: err.Error()}
	}
	n := len(pp.Seq) + len(pp.Feat)
	// race monitor on: the format packages are woven, so unsynchronised
	// package-level state shared by independent instances is reported
	// whatever the interleaving
	return execSim(t, c, o, 400000, false, func(sim *simrt.Sim) func() {
		yield := func() { sim.Yield("medium") }
		var shared seqio.SequenceAppender
		if pp.ShareTemplate && len(pp.Seq) > 0 {
			shared = seqTemplate(&pp.Seq[0])
		}
		var marks *sharedPrefixes
		if pp.ShareTemplate && len(pp.Seq) > 0 {
			// one marker slice (with room behind it) for all writers
			marks = &sharedPrefixes{id: append(make([]byte, 0, 64), pp.Seq[0].IDPrefix...), seq: append(make([]byte, 0, 64), pp.Seq[0].SeqPrefix...)}
		}
		for i := range pp.Seq {
			pl := &pp.Seq[i]
			pl.tmpl = shared
			pl.shared = marks
			i := i
			sim.Client(fmt.Sprintf("roundtrip%d", i), func() {
				sink := &simio.Sink{OnWrite: yield}
				text, _, v := writeSeqsTo(pl, sink)
				if v == nil {
					src := simio.NewSource(text, pl.Delivery)
					src.OnRead = yield
					var got []gotSeq
					got, v = readSeqs(pl, src, len(pl.Recs)+2)
					if v == nil {
						v = compareSeqs(pl, got)
					}
				}
				if v != nil {
					sim.Fail(v.Class, v.Site+"-concurrent-instances", fmt.Sprintf("%d independent writer/reader pairs on different goroutines, pair %d: %s", n, i, v.Text))
				}
			})
		}
		for i := range pp.Feat {
			pl := &pp.Feat[i]
			i := i
			sim.Client(fmt.Sprintf("roundtrip%d", len(pp.Seq)+i), func() {
				sink := &simio.Sink{OnWrite: yield}
				text, want, _, v := writeFeatsTo(pl, sink)
				if v == nil {
					src := simio.NewSource(text, pl.Delivery)
					src.OnRead = yield
					var got []string
					got, v = readFeats(pl, src, len(want)+2)
					if v == nil {
						v = compareFeats("c02-"+pl.Format, want, got)
					}
				}
				if v != nil {
					sim.Fail(v.Class, v.Site+"-concurrent-instances", fmt.Sprintf("%d independent writer/reader pairs on different goroutines, pair %d: %s", n, i, v.Text))
				}
			})
		}
		return nil
	})
}

// hugeC01: a FASTQ record of 3 MiB + 17 letters between two small ones, and a
// FASTA record of 17 MiB + 1 letters on a single line.
func hugeC01() []*Case {
	fq := C01Plan{Format: "fastq", Qual: true, Enc: int(alphabet.Sanger), Alpha: "dna", Delivery: simio.NoFault("block", 7),
		Recs: []SeqRec{{Name: "a", Letters: "acgt", Quals: []int{1, 2, 3, 4}}, {Name: "huge", GenN: 3<<20 + 17}, {Name: "z", Letters: "tt", Quals: []int{9, 9}}}}
	fa := C01Plan{Format: "fasta", Alpha: "dna", Width: 1 << 40, Delivery: simio.NoFault("block", 9),
		Recs: []SeqRec{{Name: "huge", Desc: "one line", GenN: 17<<20 + 1}, {Name: "z", Letters: "acgt"}}}
	return []*Case{{Prop: "C01", Kind: "fastq", Plan: marshalPlan(fq)}, {Prop: "C01", Kind: "fasta", Plan: marshalPlan(fa)}}
}

func shrinkC01(c *Case) []*Case {
	if c.Kind == "pair" {
		return nil
	}
	var pl C01Plan
	json.Unmarshal(c.Plan, &pl)
	var out []*Case
	add := func(q C01Plan) {
		x := *c
		x.Plan = marshalPlan(q)
		out = append(out, &x)
	}
	cloneRecs := func() []SeqRec {
		r := make([]SeqRec, len(pl.Recs))
		for i, x := range pl.Recs {
			x.Quals = append([]int(nil), x.Quals...)
			r[i] = x
		}
		return r
	}
	for i := range pl.Recs {
		q := pl
		q.Recs = append(cloneRecs()[:i], cloneRecs()[i+1:]...)
		add(q)
	}
	for i, rec := range pl.Recs {
		if n := len(rec.Letters); n > 0 {
			for _, m := range []int{n / 2, n - 1} {
				q := pl
				q.Recs = cloneRecs()
				q.Recs[i].Letters = rec.Letters[:m]
				if len(rec.Quals) > m {
					q.Recs[i].Quals = q.Recs[i].Quals[:m]
				}
				add(q)
			}
		}
		if rec.Desc != "" {
			q := pl
			q.Recs = cloneRecs()
			q.Recs[i].Desc = ""
			add(q)
		}
		if rec.Name != "a" {
			q := pl
			q.Recs = cloneRecs()
			q.Recs[i].Name = "a"
			add(q)
		}
	}
	if pl.Delivery.Profile != "all" || pl.Delivery.ZeroReads || pl.Delivery.EOFWithData {
		q := pl
		q.Delivery = simio.NoFault("all", 0)
		add(q)
	}
	if pl.Format == "fasta" && pl.Width != 60 {
		q := pl
		q.Width = 60
		add(q)
	}
	return out
}

func init() {
	register(&Property{
		ID: "C01",
		Explore: func(t *testing.T, w *Worker, r *simrt.RNG) {
			w.Cold(t, genColdC01)
			if w.unit == 0 {
				// once per check: records far beyond any plausible internal limit
				for _, h := range hugeC01() {
					w.Report(h, runC01(t, h, RunOpts{}))
				}
			}
			if r.Intn(12) == 0 {
				c := genPairC01(r)
				w.Report(c, runPair(t, c, RunOpts{}))
				return
			}
			c := genC01(r)
			w.Report(c, runC01(t, c, RunOpts{}))
		},
		Run: func(t *testing.T, c *Case, o RunOpts) *Result {
			if c.Kind == "pair" {
				return runPair(t, c, o)
			}
			return runC01(t, c, o)
		},
		Shrink: shrinkC01,
	})
}
