// Code generated for the harness: many distinct element types, so that a
// process can give the sorter a type it has never seen (first-use paths such
// as gob registration run once per type and process).
package props

import "github.com/biogo/biogo/morass"

type fk0 struct{ Key, Serial int }

func (a fk0) Less(b interface{}) bool { return a.Key < b.(fk0).Key }

type fk1 struct{ Key, Serial int }

func (a fk1) Less(b interface{}) bool { return a.Key < b.(fk1).Key }

type fk2 struct{ Key, Serial int }

func (a fk2) Less(b interface{}) bool { return a.Key < b.(fk2).Key }

type fk3 struct{ Key, Serial int }

func (a fk3) Less(b interface{}) bool { return a.Key < b.(fk3).Key }

type fk4 struct{ Key, Serial int }

func (a fk4) Less(b interface{}) bool { return a.Key < b.(fk4).Key }

type fk5 struct{ Key, Serial int }

func (a fk5) Less(b interface{}) bool { return a.Key < b.(fk5).Key }

type fk6 struct{ Key, Serial int }

func (a fk6) Less(b interface{}) bool { return a.Key < b.(fk6).Key }

type fk7 struct{ Key, Serial int }

func (a fk7) Less(b interface{}) bool { return a.Key < b.(fk7).Key }

type fk8 struct{ Key, Serial int }

func (a fk8) Less(b interface{}) bool { return a.Key < b.(fk8).Key }

type fk9 struct{ Key, Serial int }

func (a fk9) Less(b interface{}) bool { return a.Key < b.(fk9).Key }

type fk10 struct{ Key, Serial int }

func (a fk10) Less(b interface{}) bool { return a.Key < b.(fk10).Key }

type fk11 struct{ Key, Serial int }

func (a fk11) Less(b interface{}) bool { return a.Key < b.(fk11).Key }

type fk12 struct{ Key, Serial int }

func (a fk12) Less(b interface{}) bool { return a.Key < b.(fk12).Key }

type fk13 struct{ Key, Serial int }

func (a fk13) Less(b interface{}) bool { return a.Key < b.(fk13).Key }

type fk14 struct{ Key, Serial int }

func (a fk14) Less(b interface{}) bool { return a.Key < b.(fk14).Key }

type fk15 struct{ Key, Serial int }

func (a fk15) Less(b interface{}) bool { return a.Key < b.(fk15).Key }

type fk16 struct{ Key, Serial int }

func (a fk16) Less(b interface{}) bool { return a.Key < b.(fk16).Key }

type fk17 struct{ Key, Serial int }

func (a fk17) Less(b interface{}) bool { return a.Key < b.(fk17).Key }

type fk18 struct{ Key, Serial int }

func (a fk18) Less(b interface{}) bool { return a.Key < b.(fk18).Key }

type fk19 struct{ Key, Serial int }

func (a fk19) Less(b interface{}) bool { return a.Key < b.(fk19).Key }

type fk20 struct{ Key, Serial int }

func (a fk20) Less(b interface{}) bool { return a.Key < b.(fk20).Key }

type fk21 struct{ Key, Serial int }

func (a fk21) Less(b interface{}) bool { return a.Key < b.(fk21).Key }

type fk22 struct{ Key, Serial int }

func (a fk22) Less(b interface{}) bool { return a.Key < b.(fk22).Key }

type fk23 struct{ Key, Serial int }

func (a fk23) Less(b interface{}) bool { return a.Key < b.(fk23).Key }

type fk24 struct{ Key, Serial int }

func (a fk24) Less(b interface{}) bool { return a.Key < b.(fk24).Key }

type fk25 struct{ Key, Serial int }

func (a fk25) Less(b interface{}) bool { return a.Key < b.(fk25).Key }

type fk26 struct{ Key, Serial int }

func (a fk26) Less(b interface{}) bool { return a.Key < b.(fk26).Key }

type fk27 struct{ Key, Serial int }

func (a fk27) Less(b interface{}) bool { return a.Key < b.(fk27).Key }

type fk28 struct{ Key, Serial int }

func (a fk28) Less(b interface{}) bool { return a.Key < b.(fk28).Key }

type fk29 struct{ Key, Serial int }

func (a fk29) Less(b interface{}) bool { return a.Key < b.(fk29).Key }

type fk30 struct{ Key, Serial int }

func (a fk30) Less(b interface{}) bool { return a.Key < b.(fk30).Key }

type fk31 struct{ Key, Serial int }

func (a fk31) Less(b interface{}) bool { return a.Key < b.(fk31).Key }

type fk32 struct{ Key, Serial int }

func (a fk32) Less(b interface{}) bool { return a.Key < b.(fk32).Key }

type fk33 struct{ Key, Serial int }

func (a fk33) Less(b interface{}) bool { return a.Key < b.(fk33).Key }

type fk34 struct{ Key, Serial int }

func (a fk34) Less(b interface{}) bool { return a.Key < b.(fk34).Key }

type fk35 struct{ Key, Serial int }

func (a fk35) Less(b interface{}) bool { return a.Key < b.(fk35).Key }

type fk36 struct{ Key, Serial int }

func (a fk36) Less(b interface{}) bool { return a.Key < b.(fk36).Key }

type fk37 struct{ Key, Serial int }

func (a fk37) Less(b interface{}) bool { return a.Key < b.(fk37).Key }

type fk38 struct{ Key, Serial int }

func (a fk38) Less(b interface{}) bool { return a.Key < b.(fk38).Key }

type fk39 struct{ Key, Serial int }

func (a fk39) Less(b interface{}) bool { return a.Key < b.(fk39).Key }

type fk40 struct{ Key, Serial int }

func (a fk40) Less(b interface{}) bool { return a.Key < b.(fk40).Key }

type fk41 struct{ Key, Serial int }

func (a fk41) Less(b interface{}) bool { return a.Key < b.(fk41).Key }

type fk42 struct{ Key, Serial int }

func (a fk42) Less(b interface{}) bool { return a.Key < b.(fk42).Key }

type fk43 struct{ Key, Serial int }

func (a fk43) Less(b interface{}) bool { return a.Key < b.(fk43).Key }

type fk44 struct{ Key, Serial int }

func (a fk44) Less(b interface{}) bool { return a.Key < b.(fk44).Key }

type fk45 struct{ Key, Serial int }

func (a fk45) Less(b interface{}) bool { return a.Key < b.(fk45).Key }

type fk46 struct{ Key, Serial int }

func (a fk46) Less(b interface{}) bool { return a.Key < b.(fk46).Key }

type fk47 struct{ Key, Serial int }

func (a fk47) Less(b interface{}) bool { return a.Key < b.(fk47).Key }

type freshType struct {
	proto interface{}
	mk    func(k, s int) morass.LessInterface
	pull  func(m *morass.Morass) (int, int, error)
}

var freshTypes = []freshType{
	{fk0{}, func(k, s int) morass.LessInterface { return fk0{k, s} }, func(m *morass.Morass) (int, int, error) { var v fk0; err := m.Pull(&v); return v.Key, v.Serial, err }},
	{fk1{}, func(k, s int) morass.LessInterface { return fk1{k, s} }, func(m *morass.Morass) (int, int, error) { var v fk1; err := m.Pull(&v); return v.Key, v.Serial, err }},
	{fk2{}, func(k, s int) morass.LessInterface { return fk2{k, s} }, func(m *morass.Morass) (int, int, error) { var v fk2; err := m.Pull(&v); return v.Key, v.Serial, err }},
	{fk3{}, func(k, s int) morass.LessInterface { return fk3{k, s} }, func(m *morass.Morass) (int, int, error) { var v fk3; err := m.Pull(&v); return v.Key, v.Serial, err }},
	{fk4{}, func(k, s int) morass.LessInterface { return fk4{k, s} }, func(m *morass.Morass) (int, int, error) { var v fk4; err := m.Pull(&v); return v.Key, v.Serial, err }},
	{fk5{}, func(k, s int) morass.LessInterface { return fk5{k, s} }, func(m *morass.Morass) (int, int, error) { var v fk5; err := m.Pull(&v); return v.Key, v.Serial, err }},
	{fk6{}, func(k, s int) morass.LessInterface { return fk6{k, s} }, func(m *morass.Morass) (int, int, error) { var v fk6; err := m.Pull(&v); return v.Key, v.Serial, err }},
	{fk7{}, func(k, s int) morass.LessInterface { return fk7{k, s} }, func(m *morass.Morass) (int, int, error) { var v fk7; err := m.Pull(&v); return v.Key, v.Serial, err }},
	{fk8{}, func(k, s int) morass.LessInterface { return fk8{k, s} }, func(m *morass.Morass) (int, int, error) { var v fk8; err := m.Pull(&v); return v.Key, v.Serial, err }},
	{fk9{}, func(k, s int) morass.LessInterface { return fk9{k, s} }, func(m *morass.Morass) (int, int, error) { var v fk9; err := m.Pull(&v); return v.Key, v.Serial, err }},
	{fk10{}, func(k, s int) morass.LessInterface { return fk10{k, s} }, func(m *morass.Morass) (int, int, error) { var v fk10; err := m.Pull(&v); return v.Key, v.Serial, err }},
	{fk11{}, func(k, s int) morass.LessInterface { return fk11{k, s} }, func(m *morass.Morass) (int, int, error) { var v fk11; err := m.Pull(&v); return v.Key, v.Serial, err }},
	{fk12{}, func(k, s int) morass.LessInterface { return fk12{k, s} }, func(m *morass.Morass) (int, int, error) { var v fk12; err := m.Pull(&v); return v.Key, v.Serial, err }},
	{fk13{}, func(k, s int) morass.LessInterface { return fk13{k, s} }, func(m *morass.Morass) (int, int, error) { var v fk13; err := m.Pull(&v); return v.Key, v.Serial, err }},
	{fk14{}, func(k, s int) morass.LessInterface { return fk14{k, s} }, func(m *morass.Morass) (int, int, error) { var v fk14; err := m.Pull(&v); return v.Key, v.Serial, err }},
	{fk15{}, func(k, s int) morass.LessInterface { return fk15{k, s} }, func(m *morass.Morass) (int, int, error) { var v fk15; err := m.Pull(&v); return v.Key, v.Serial, err }},
	{fk16{}, func(k, s int) morass.LessInterface { return fk16{k, s} }, func(m *morass.Morass) (int, int, error) { var v fk16; err := m.Pull(&v); return v.Key, v.Serial, err }},
	{fk17{}, func(k, s int) morass.LessInterface { return fk17{k, s} }, func(m *morass.Morass) (int, int, error) { var v fk17; err := m.Pull(&v); return v.Key, v.Serial, err }},
	{fk18{}, func(k, s int) morass.LessInterface { return fk18{k, s} }, func(m *morass.Morass) (int, int, error) { var v fk18; err := m.Pull(&v); return v.Key, v.Serial, err }},
	{fk19{}, func(k, s int) morass.LessInterface { return fk19{k, s} }, func(m *morass.Morass) (int, int, error) { var v fk19; err := m.Pull(&v); return v.Key, v.Serial, err }},
	{fk20{}, func(k, s int) morass.LessInterface { return fk20{k, s} }, func(m *morass.Morass) (int, int, error) { var v fk20; err := m.Pull(&v); return v.Key, v.Serial, err }},
	{fk21{}, func(k, s int) morass.LessInterface { return fk21{k, s} }, func(m *morass.Morass) (int, int, error) { var v fk21; err := m.Pull(&v); return v.Key, v.Serial, err }},
	{fk22{}, func(k, s int) morass.LessInterface { return fk22{k, s} }, func(m *morass.Morass) (int, int, error) { var v fk22; err := m.Pull(&v); return v.Key, v.Serial, err }},
	{fk23{}, func(k, s int) morass.LessInterface { return fk23{k, s} }, func(m *morass.Morass) (int, int, error) { var v fk23; err := m.Pull(&v); return v.Key, v.Serial, err }},
	{fk24{}, func(k, s int) morass.LessInterface { return fk24{k, s} }, func(m *morass.Morass) (int, int, error) { var v fk24; err := m.Pull(&v); return v.Key, v.Serial, err }},
	{fk25{}, func(k, s int) morass.LessInterface { return fk25{k, s} }, func(m *morass.Morass) (int, int, error) { var v fk25; err := m.Pull(&v); return v.Key, v.Serial, err }},
	{fk26{}, func(k, s int) morass.LessInterface { return fk26{k, s} }, func(m *morass.Morass) (int, int, error) { var v fk26; err := m.Pull(&v); return v.Key, v.Serial, err }},
	{fk27{}, func(k, s int) morass.LessInterface { return fk27{k, s} }, func(m *morass.Morass) (int, int, error) { var v fk27; err := m.Pull(&v); return v.Key, v.Serial, err }},
	{fk28{}, func(k, s int) morass.LessInterface { return fk28{k, s} }, func(m *morass.Morass) (int, int, error) { var v fk28; err := m.Pull(&v); return v.Key, v.Serial, err }},
	{fk29{}, func(k, s int) morass.LessInterface { return fk29{k, s} }, func(m *morass.Morass) (int, int, error) { var v fk29; err := m.Pull(&v); return v.Key, v.Serial, err }},
	{fk30{}, func(k, s int) morass.LessInterface { return fk30{k, s} }, func(m *morass.Morass) (int, int, error) { var v fk30; err := m.Pull(&v); return v.Key, v.Serial, err }},
	{fk31{}, func(k, s int) morass.LessInterface { return fk31{k, s} }, func(m *morass.Morass) (int, int, error) { var v fk31; err := m.Pull(&v); return v.Key, v.Serial, err }},
	{fk32{}, func(k, s int) morass.LessInterface { return fk32{k, s} }, func(m *morass.Morass) (int, int, error) { var v fk32; err := m.Pull(&v); return v.Key, v.Serial, err }},
	{fk33{}, func(k, s int) morass.LessInterface { return fk33{k, s} }, func(m *morass.Morass) (int, int, error) { var v fk33; err := m.Pull(&v); return v.Key, v.Serial, err }},
	{fk34{}, func(k, s int) morass.LessInterface { return fk34{k, s} }, func(m *morass.Morass) (int, int, error) { var v fk34; err := m.Pull(&v); return v.Key, v.Serial, err }},
	{fk35{}, func(k, s int) morass.LessInterface { return fk35{k, s} }, func(m *morass.Morass) (int, int, error) { var v fk35; err := m.Pull(&v); return v.Key, v.Serial, err }},
	{fk36{}, func(k, s int) morass.LessInterface { return fk36{k, s} }, func(m *morass.Morass) (int, int, error) { var v fk36; err := m.Pull(&v); return v.Key, v.Serial, err }},
	{fk37{}, func(k, s int) morass.LessInterface { return fk37{k, s} }, func(m *morass.Morass) (int, int, error) { var v fk37; err := m.Pull(&v); return v.Key, v.Serial, err }},
	{fk38{}, func(k, s int) morass.LessInterface { return fk38{k, s} }, func(m *morass.Morass) (int, int, error) { var v fk38; err := m.Pull(&v); return v.Key, v.Serial, err }},
	{fk39{}, func(k, s int) morass.LessInterface { return fk39{k, s} }, func(m *morass.Morass) (int, int, error) { var v fk39; err := m.Pull(&v); return v.Key, v.Serial, err }},
	{fk40{}, func(k, s int) morass.LessInterface { return fk40{k, s} }, func(m *morass.Morass) (int, int, error) { var v fk40; err := m.Pull(&v); return v.Key, v.Serial, err }},
	{fk41{}, func(k, s int) morass.LessInterface { return fk41{k, s} }, func(m *morass.Morass) (int, int, error) { var v fk41; err := m.Pull(&v); return v.Key, v.Serial, err }},
	{fk42{}, func(k, s int) morass.LessInterface { return fk42{k, s} }, func(m *morass.Morass) (int, int, error) { var v fk42; err := m.Pull(&v); return v.Key, v.Serial, err }},
	{fk43{}, func(k, s int) morass.LessInterface { return fk43{k, s} }, func(m *morass.Morass) (int, int, error) { var v fk43; err := m.Pull(&v); return v.Key, v.Serial, err }},
	{fk44{}, func(k, s int) morass.LessInterface { return fk44{k, s} }, func(m *morass.Morass) (int, int, error) { var v fk44; err := m.Pull(&v); return v.Key, v.Serial, err }},
	{fk45{}, func(k, s int) morass.LessInterface { return fk45{k, s} }, func(m *morass.Morass) (int, int, error) { var v fk45; err := m.Pull(&v); return v.Key, v.Serial, err }},
	{fk46{}, func(k, s int) morass.LessInterface { return fk46{k, s} }, func(m *morass.Morass) (int, int, error) { var v fk46; err := m.Pull(&v); return v.Key, v.Serial, err }},
	{fk47{}, func(k, s int) morass.LessInterface { return fk47{k, s} }, func(m *morass.Morass) (int, int, error) { var v fk47; err := m.Pull(&v); return v.Key, v.Serial, err }},
}

// nextFresh hands out each type once per process.
var nextFresh int
