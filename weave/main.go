// Command weave instruments biogo packages for the deterministic simulator.
//
// It loads the named packages from the repository's *current working tree*
// with full type information, rewrites every synchronisation, goroutine,
// channel and I/O operation into a hooked form, annotates accesses to fields
// of package-declared structs for the happens-before monitor, and writes the
// result to an overlay directory together with an overlay.json for
// `go build -overlay`. Nothing under the repository is touched.
//
// Anything the weaver cannot model is either refused (exit 2) or, if it may
// never execute, replaced by a call that reports a tooling error when reached
// inside a simulation. It never guesses.
package main

import (
	"bytes"
	"crypto/sha256"
	"encoding/hex"
	"encoding/json"
	"flag"
	"fmt"
	"go/ast"
	"go/format"
	"go/token"
	"go/types"
	"os"
	"path/filepath"
	"regexp"
	"sort"
	"strconv"
	"strings"

	"golang.org/x/tools/go/packages"
)

// kinds: keep in sync with simrt.Kind
const (
	kSend    = 1
	kRecv    = 2
	kClose   = 3
	kSelSend = 4
	kSelRecv = 5
	kLock    = 6
	kUnlock  = 7
	kRLock   = 8
	kRUnlock = 9
	kWgAdd   = 10
	kWgDone  = 11
	kWgWait  = 12
	kOnce    = 13
	kAtomic  = 14
	kRange   = 20
)

type report struct {
	Packages    []string            `json:"packages"`
	Counts      map[string]int      `json:"counts"`
	Unsupported []string            `json:"unsupported_if_executed"`
	HBDisabled  []string            `json:"hb_monitor_disabled_because"`
	IOSites     map[string][]string `json:"io_sites"`
	Fingerprint string              `json:"fingerprint"`
	Files       map[string]string   `json:"files"`
}

func fatal(format string, a ...interface{}) {
	fmt.Fprintf(os.Stderr, "weave: "+format+"\n", a...)
	os.Exit(2)
}

func main() {
	repo := flag.String("repo", "/repo", "repository root")
	out := flag.String("out", "", "overlay output directory")
	flag.Parse()
	pkgs := flag.Args()
	if *out == "" || len(pkgs) == 0 {
		fatal("usage: weave -repo /repo -out DIR ./pkg...")
	}
	cfg := &packages.Config{
		Mode: packages.NeedName | packages.NeedFiles | packages.NeedCompiledGoFiles | packages.NeedSyntax |
			packages.NeedTypes | packages.NeedTypesInfo | packages.NeedImports | packages.NeedDeps,
		Dir: *repo,
		Env: append(os.Environ(), "GOFLAGS=-mod=mod", "GOPROXY=off", "GOSUMDB=off", "GOTOOLCHAIN=local"),
	}
	loaded, err := packages.Load(cfg, pkgs...)
	if err != nil {
		fatal("load: %v", err)
	}
	rep := &report{Counts: map[string]int{}, IOSites: map[string][]string{}, Files: map[string]string{}}
	overlay := map[string]string{}
	fp := sha256.New()
	if err := os.MkdirAll(*out, 0o755); err != nil {
		fatal("%v", err)
	}
	sort.Slice(loaded, func(i, j int) bool { return loaded[i].PkgPath < loaded[j].PkgPath })
	for _, p := range loaded {
		if len(p.Errors) > 0 {
			for _, e := range p.Errors {
				fmt.Fprintln(os.Stderr, "weave:", e)
			}
			fatal("package %s does not type-check", p.PkgPath)
		}
		rep.Packages = append(rep.Packages, p.PkgPath)
		w := &weaver{pkg: p, rep: rep, imports: map[string]string{}, tramps: map[string]string{}}
		dir := filepath.Join(*out, strings.ReplaceAll(strings.TrimPrefix(p.PkgPath, "github.com/biogo/biogo/"), "/", "_"))
		if err := os.MkdirAll(dir, 0o755); err != nil {
			fatal("%v", err)
		}
		var srcDir string
		for i, f := range p.Syntax {
			name := p.CompiledGoFiles[i]
			srcDir = filepath.Dir(name)
			src, _ := os.ReadFile(name)
			fp.Write([]byte(name))
			fp.Write(src)
			w.file(f, filepath.Base(name))
			// New nodes carry no positions, so the printer could misplace
			// free comments; drop them all, keeping build constraints.
			var buf bytes.Buffer
			for _, cg := range f.Comments {
				if cg.Pos() > f.Package {
					break
				}
				for _, c := range cg.List {
					if strings.HasPrefix(c.Text, "//go:build") || strings.HasPrefix(c.Text, "// +build") {
						buf.WriteString(c.Text + "\n")
					}
				}
			}
			if buf.Len() > 0 {
				buf.WriteString("\n")
			}
			f.Comments = nil
			f.Doc = nil
			if err := format.Node(&buf, p.Fset, f); err != nil {
				fatal("print %s: %v", name, err)
			}
			dst := filepath.Join(dir, filepath.Base(name))
			if err := os.WriteFile(dst, buf.Bytes(), 0o644); err != nil {
				fatal("%v", err)
			}
			overlay[name] = dst
			rep.Files[name] = dst
		}
		gen := w.genFile()
		dst := filepath.Join(dir, "zz_verif_gen.go")
		if err := os.WriteFile(dst, gen, 0o644); err != nil {
			fatal("%v", err)
		}
		overlay[filepath.Join(srcDir, "zz_verif_gen.go")] = dst
	}
	rep.Fingerprint = hex.EncodeToString(fp.Sum(nil))[:16]
	sort.Strings(rep.Unsupported)
	sort.Strings(rep.HBDisabled)
	ob, _ := json.MarshalIndent(map[string]interface{}{"Replace": overlay}, "", " ")
	if err := os.WriteFile(filepath.Join(*out, "overlay.json"), ob, 0o644); err != nil {
		fatal("%v", err)
	}
	rb, _ := json.MarshalIndent(rep, "", " ")
	if err := os.WriteFile(filepath.Join(*out, "weave-report.json"), rb, 0o644); err != nil {
		fatal("%v", err)
	}
}

type weaver struct {
	pkg     *packages.Package
	rep     *report
	fname   string
	imports map[string]string // path -> name, for the generated file
	tramps  map[string]string // trampoline name -> source
	order   []string
	nTmp    int

	needSelectN bool
	needCond    bool
	captured    map[*types.Var]bool
}

func (w *weaver) info() *types.Info { return w.pkg.TypesInfo }

func (w *weaver) site(n ast.Node) string {
	p := w.pkg.Fset.Position(n.Pos())
	return fmt.Sprintf("%s:%d", filepath.Base(p.Filename), p.Line)
}

func (w *weaver) count(k string) { w.rep.Counts[w.pkg.Name+"."+k]++ }

func (w *weaver) tmp(prefix string) string {
	w.nTmp++
	return fmt.Sprintf("vh%s%d", prefix, w.nTmp)
}

func lit(s string) *ast.BasicLit { return &ast.BasicLit{Kind: token.STRING, Value: strconv.Quote(s)} }
func intLit(i int) *ast.BasicLit { return &ast.BasicLit{Kind: token.INT, Value: strconv.Itoa(i)} }
func id(s string) *ast.Ident     { return ast.NewIdent(s) }
func call(fn string, args ...ast.Expr) *ast.CallExpr {
	return &ast.CallExpr{Fun: id(fn), Args: args}
}
func exprStmt(e ast.Expr) ast.Stmt { return &ast.ExprStmt{X: e} }
func thunk(results *ast.FieldList, body ...ast.Stmt) *ast.FuncLit {
	return &ast.FuncLit{Type: &ast.FuncType{Params: &ast.FieldList{}, Results: results}, Body: &ast.BlockStmt{List: body}}
}

// ---------------------------------------------------------------------------

func (w *weaver) file(f *ast.File, name string) {
	w.fname = name
	// refuse / note unmodelled primitives used anywhere in the file
	for idn, obj := range w.info().Uses {
		if obj.Pkg() == nil {
			continue
		}
		// only package-level functions and types (not e.g. the method time.Time.After)
		switch o := obj.(type) {
		case *types.Func:
			if sig, ok := o.Type().(*types.Signature); ok && sig.Recv() != nil {
				continue
			}
		case *types.TypeName:
		default:
			continue
		}
		switch obj.Pkg().Path() {
		case "sync":
			switch obj.Name() {
			}
		case "context", "golang.org/x/sync/errgroup":
			fatal("%s: package %s is not modelled by the simulator; refusing to weave", w.site(idn), obj.Pkg().Path())
		case "time":
			switch obj.Name() {
			case "After", "Tick", "NewTimer", "NewTicker", "AfterFunc", "Timer", "Ticker":
				fatal("%s: time.%s is not modelled by the simulator; refusing to weave", w.site(idn), obj.Name())
			}
		}
	}
	w.findCaptured(f)
	for _, d := range f.Decls {
		fd, ok := d.(*ast.FuncDecl)
		if !ok || fd.Body == nil {
			continue
		}
		fd.Body.List = w.stmts(fd.Body.List)
	}
}

// findCaptured collects the local variables that a function literal which may
// run on another goroutine (the function of a go statement, an argument of a
// call, a returned or stored function value) shares with its surroundings.
// Their accesses are annotated like accesses to struct fields.
func (w *weaver) findCaptured(f *ast.File) {
	if w.captured == nil {
		w.captured = map[*types.Var]bool{}
	}
	var stack []ast.Node
	ast.Inspect(f, func(n ast.Node) bool {
		if n == nil {
			stack = stack[:len(stack)-1]
			return true
		}
		stack = append(stack, n)
		lit, ok := n.(*ast.FuncLit)
		if !ok || len(stack) < 2 {
			return true
		}
		escaping := true
		switch p := stack[len(stack)-2].(type) {
		case *ast.CallExpr:
			if p.Fun == lit && len(stack) >= 3 {
				// func(){...}() called on the spot: only a go statement runs it elsewhere
				_, isGo := stack[len(stack)-3].(*ast.GoStmt)
				escaping = isGo
			}
		}
		if !escaping {
			return true
		}
		ast.Inspect(lit.Body, func(m ast.Node) bool {
			id, ok := m.(*ast.Ident)
			if !ok {
				return true
			}
			v, ok := w.info().Uses[id].(*types.Var)
			if !ok || v.IsField() || v.Pkg() != w.pkg.Types || v.Parent() == w.pkg.Types.Scope() {
				return true
			}
			if v.Pos() >= lit.Pos() && v.Pos() <= lit.End() {
				return true // declared inside the literal
			}
			if isSyncType(v.Type()) {
				return true
			}
			w.captured[v] = true
			return true
		})
		return true
	})
}

func (w *weaver) noteHB(s string) {
	for _, x := range w.rep.HBDisabled {
		if x == s {
			return
		}
	}
	w.rep.HBDisabled = append(w.rep.HBDisabled, s)
}

func (w *weaver) unsupported(what string, n ast.Node) ast.Stmt {
	s := w.site(n)
	w.rep.Unsupported = append(w.rep.Unsupported, s+": "+what)
	return exprStmt(call("vhUnsupported", lit(what), lit(s)))
}

// stmts rewrites a statement list.
func (w *weaver) stmts(list []ast.Stmt) []ast.Stmt {
	var out []ast.Stmt
	for _, s := range list {
		before, repl, after := w.stmt(s)
		out = append(out, before...)
		out = append(out, repl)
		out = append(out, after...)
	}
	return out
}

func (w *weaver) block(b *ast.BlockStmt) {
	if b != nil {
		b.List = w.stmts(b.List)
	}
}

// accStmts builds the access annotations for a statement: reads (and, for
// statements that cannot be followed, writes) go before it, writes after.
func (w *weaver) accStmts(s ast.Stmt) (before, after []ast.Stmt) {
	accs := w.collect(s)
	terminal := false
	switch s.(type) {
	case *ast.ReturnStmt, *ast.BranchStmt, *ast.IfStmt, *ast.ForStmt, *ast.RangeStmt, *ast.SwitchStmt,
		*ast.TypeSwitchStmt, *ast.SelectStmt, *ast.BlockStmt, *ast.LabeledStmt, *ast.GoStmt, *ast.DeferStmt:
		terminal = true
	}
	seen := map[string]bool{}
	for _, a := range accs {
		key := a.text + fmt.Sprint(a.write, a.app)
		if a.guard != nil {
			key += fmt.Sprintf("|%p", a.guard)
		}
		if seen[key] {
			continue
		}
		seen[key] = true
		var st ast.Stmt
		if a.idx != nil || a.app {
			var first ast.Expr
			if a.app {
				first = intLit(-1) // resolved to len(slice) at run time
			} else {
				first = call("int", a.idx)
			}
			body := []ast.Stmt{&ast.ReturnStmt{Results: []ast.Expr{a.expr, first, a.cnt}}}
			if a.guard != nil {
				body = append([]ast.Stmt{&ast.IfStmt{Cond: &ast.UnaryExpr{Op: token.NOT, X: &ast.ParenExpr{X: a.guard}},
					Body: &ast.BlockStmt{List: []ast.Stmt{&ast.ReturnStmt{Results: []ast.Expr{id("nil"), intLit(0), intLit(0)}}}}}}, body...)
			}
			st = exprStmt(call("vhAccIdx",
				thunk(&ast.FieldList{List: []*ast.Field{{Type: &ast.InterfaceType{Methods: &ast.FieldList{}}}, {Type: id("int")}, {Type: id("int")}}}, body...),
				lit(a.name), id(strconv.FormatBool(a.write)), lit(w.site(s))))
			w.count("accidx")
		} else {
			body := []ast.Stmt{&ast.ReturnStmt{Results: []ast.Expr{addrOf(a)}}}
			if a.guard != nil {
				body = append([]ast.Stmt{&ast.IfStmt{Cond: &ast.UnaryExpr{Op: token.NOT, X: &ast.ParenExpr{X: a.guard}},
					Body: &ast.BlockStmt{List: []ast.Stmt{&ast.ReturnStmt{Results: []ast.Expr{id("nil")}}}}}}, body...)
			}
			st = exprStmt(call("vhAcc",
				thunk(&ast.FieldList{List: []*ast.Field{{Type: &ast.InterfaceType{Methods: &ast.FieldList{}}}}}, body...),
				lit(a.name), id(strconv.FormatBool(a.write)), lit(w.site(s))))
			w.count("acc")
		}
		// the annotation costs a closure: skip it entirely unless a simulation is running
		st = &ast.IfStmt{Cond: id("VerifOn"), Body: &ast.BlockStmt{List: []ast.Stmt{st}}}
		if a.app {
			// needs the length before the append; an append statement holds
			// no synchronisation (checked in collect), so before == after
			before = append(before, st)
			continue
		}
		if a.write && !terminal {
			after = append(after, st)
		} else {
			before = append(before, st)
		}
	}
	return
}

func addrOf(a acc) ast.Expr {
	if a.ptr {
		return a.expr
	}
	return &ast.UnaryExpr{Op: token.AND, X: a.expr}
}

// stmt rewrites one statement. before/after are statements to be placed
// around it in the enclosing list.
func (w *weaver) stmt(s ast.Stmt) (before []ast.Stmt, repl ast.Stmt, after []ast.Stmt) {
	repl = s
	if s == nil {
		return
	}
	accB, accA := w.accStmts(s)
	defer func() {
		before = append(accB, before...)
		after = append(after, accA...)
	}()
	switch s := s.(type) {
	case *ast.BlockStmt:
		w.block(s)
	case *ast.LabeledStmt:
		b, r, a := w.stmt(s.Stmt)
		s.Stmt = r
		before, after = b, a
	case *ast.ExprStmt:
		s.X = w.expr(s.X)
	case *ast.SendStmt:
		s.Chan = w.expr(s.Chan)
		s.Value = w.expr(s.Value)
		st := w.site(s)
		chTxt := s.Chan
		if !w.pure(chTxt) {
			return nil, w.wrapUnsupported("send on a channel expression with side effects", s), nil
		}
		w.count("send")
		tk := w.tmp("g")
		before = []ast.Stmt{&ast.AssignStmt{Lhs: []ast.Expr{id(tk)}, Tok: token.DEFINE, Rhs: []ast.Expr{call("vhPre", intLit(kSend), chTxt, lit(st))}}}
		after = []ast.Stmt{exprStmt(call("vhPost", id(tk), intLit(kSend), chTxt, lit(st), intLit(0)))}
	case *ast.IncDecStmt:
		s.X = w.expr(s.X)
	case *ast.AssignStmt:
		// comma-ok receive needs the two-result trampoline
		if len(s.Rhs) == 1 && len(s.Lhs) == 2 {
			if u, ok := unparen(s.Rhs[0]).(*ast.UnaryExpr); ok && u.Op == token.ARROW {
				s.Rhs[0] = w.recv(u, true)
				for i := range s.Lhs {
					s.Lhs[i] = w.expr(s.Lhs[i])
				}
				return
			}
		}
		for i := range s.Lhs {
			s.Lhs[i] = w.expr(s.Lhs[i])
		}
		for i := range s.Rhs {
			s.Rhs[i] = w.expr(s.Rhs[i])
		}
	case *ast.GoStmt:
		repl = w.goStmt(s)
	case *ast.DeferStmt:
		s.Call = w.expr(s.Call).(*ast.CallExpr)
	case *ast.ReturnStmt:
		for i := range s.Results {
			s.Results[i] = w.expr(s.Results[i])
		}
	case *ast.BranchStmt, *ast.EmptyStmt:
	case *ast.DeclStmt:
		if gd, ok := s.Decl.(*ast.GenDecl); ok {
			for _, sp := range gd.Specs {
				if vs, ok := sp.(*ast.ValueSpec); ok {
					if len(vs.Values) == 1 && len(vs.Names) == 2 {
						if u, ok := unparen(vs.Values[0]).(*ast.UnaryExpr); ok && u.Op == token.ARROW {
							vs.Values[0] = w.recv(u, true)
							continue
						}
					}
					for i := range vs.Values {
						vs.Values[i] = w.expr(vs.Values[i])
					}
				}
			}
		}
	case *ast.IfStmt:
		before = w.header(s.Init)
		s.Cond = w.expr(s.Cond)
		w.block(s.Body)
		if s.Else != nil {
			b, r, a := w.stmt(s.Else)
			if len(b)+len(a) > 0 {
				// hooks cannot be hoisted out of an else branch: wrap
				r = &ast.BlockStmt{List: append(append(b, r), a...)}
			}
			s.Else = r
		}
	case *ast.ForStmt:
		before = w.header(s.Init)
		if s.Cond != nil {
			s.Cond = w.expr(s.Cond)
		}
		var postAcc []ast.Stmt
		if s.Post != nil {
			pb, pa := w.accStmts(s.Post)
			postAcc = append(pb, pa...)
			if b := w.header(s.Post); len(b) > 0 {
				before = append(before, b...)
			}
		}
		w.block(s.Body)
		if len(postAcc) > 0 {
			// the post statement's accesses (a shared loop variable), once per iteration
			s.Body.List = append(s.Body.List, postAcc...)
		}
	case *ast.RangeStmt:
		if t := w.info().TypeOf(s.X); t != nil {
			if _, ok := t.Underlying().(*types.Chan); ok {
				return w.rangeChan(s)
			}
		}
		name, isSlice := w.sliceName(s.X)
		s.X = w.expr(s.X)
		w.block(s.Body)
		if isSlice && (s.Tok == token.DEFINE || s.Tok == token.ILLEGAL) {
			// read of element i at iteration i
			sv := w.tmp("s")
			before = append(before, &ast.AssignStmt{Lhs: []ast.Expr{id(sv)}, Tok: token.DEFINE, Rhs: []ast.Expr{s.X}})
			s.X = id(sv)
			key, _ := s.Key.(*ast.Ident)
			if key == nil || key.Name == "_" {
				key = id(w.tmp("i"))
				s.Key = key
				s.Tok = token.DEFINE
			}
			st := exprStmt(call("vhAccIdx",
				thunk(&ast.FieldList{List: []*ast.Field{{Type: &ast.InterfaceType{Methods: &ast.FieldList{}}}, {Type: id("int")}, {Type: id("int")}}},
					&ast.ReturnStmt{Results: []ast.Expr{id(sv), id(key.Name), intLit(1)}}),
				lit(name), id("false"), lit(w.site(s))))
			s.Body.List = append([]ast.Stmt{&ast.IfStmt{Cond: id("VerifOn"), Body: &ast.BlockStmt{List: []ast.Stmt{st}}}}, s.Body.List...)
			w.count("accrange")
		}
	case *ast.SwitchStmt:
		before = w.header(s.Init)
		if s.Tag != nil {
			s.Tag = w.expr(s.Tag)
		}
		for _, c := range s.Body.List {
			cc := c.(*ast.CaseClause)
			for i := range cc.List {
				cc.List[i] = w.expr(cc.List[i])
			}
			cc.Body = w.stmts(cc.Body)
		}
	case *ast.TypeSwitchStmt:
		before = w.header(s.Init)
		switch a := s.Assign.(type) {
		case *ast.AssignStmt:
			for i := range a.Rhs {
				a.Rhs[i] = w.expr(a.Rhs[i])
			}
		case *ast.ExprStmt:
			a.X = w.expr(a.X)
		}
		for _, c := range s.Body.List {
			cc := c.(*ast.CaseClause)
			cc.Body = w.stmts(cc.Body)
		}
	case *ast.SelectStmt:
		return w.selectStmt(s)
	default:
		fatal("%s: unhandled statement type %T", w.site(s), s)
	}
	return
}

func (w *weaver) wrapUnsupported(what string, s ast.Stmt) ast.Stmt {
	return &ast.BlockStmt{List: []ast.Stmt{w.unsupported(what, s), s}}
}

// header handles a statement in a header position (if/for/switch init, for
// post). Expression-level hooks work there; statement-level ones do not.
func (w *weaver) header(s ast.Stmt) []ast.Stmt {
	if s == nil {
		return nil
	}
	if _, ok := s.(*ast.SendStmt); ok {
		return []ast.Stmt{w.unsupported("send statement in a statement header", s)}
	}
	b, _, a := w.stmtNoAcc(s)
	return append(b, a...)
}

func (w *weaver) stmtNoAcc(s ast.Stmt) (before []ast.Stmt, repl ast.Stmt, after []ast.Stmt) {
	switch s := s.(type) {
	case *ast.AssignStmt:
		if len(s.Rhs) == 1 && len(s.Lhs) == 2 {
			if u, ok := unparen(s.Rhs[0]).(*ast.UnaryExpr); ok && u.Op == token.ARROW {
				s.Rhs[0] = w.recv(u, true)
				return nil, s, nil
			}
		}
		for i := range s.Lhs {
			s.Lhs[i] = w.expr(s.Lhs[i])
		}
		for i := range s.Rhs {
			s.Rhs[i] = w.expr(s.Rhs[i])
		}
	case *ast.ExprStmt:
		s.X = w.expr(s.X)
	case *ast.IncDecStmt:
		s.X = w.expr(s.X)
	default:
		fatal("%s: unhandled header statement %T", w.site(s), s)
	}
	return nil, s, nil
}

func unparen(e ast.Expr) ast.Expr {
	for {
		p, ok := e.(*ast.ParenExpr)
		if !ok {
			return e
		}
		e = p.X
	}
}

// pure reports whether evaluating e twice is harmless (identifiers, field
// selections, dereferences, constant indexing).
func (w *weaver) pure(e ast.Expr) bool {
	switch e := e.(type) {
	case *ast.Ident, *ast.BasicLit:
		return true
	case *ast.SelectorExpr:
		return w.pure(e.X)
	case *ast.StarExpr:
		return w.pure(e.X)
	case *ast.ParenExpr:
		return w.pure(e.X)
	case *ast.IndexExpr:
		return w.pure(e.X) && w.pure(e.Index)
	case *ast.UnaryExpr:
		return e.Op == token.AND && w.pure(e.X)
	case *ast.BinaryExpr:
		switch e.Op {
		case token.ADD, token.SUB, token.MUL:
			return w.pure(e.X) && w.pure(e.Y)
		}
	case *ast.CallExpr:
		if f, ok := e.Fun.(*ast.Ident); ok && (f.Name == "len" || f.Name == "cap") && len(e.Args) == 1 {
			if _, isB := w.info().Uses[f].(*types.Builtin); isB {
				return w.pure(e.Args[0])
			}
		}
	}
	return false
}

// guardable reports whether evaluating e a second time is harmless: no
// calls (but len/cap), no receives, no function literals.
func (w *weaver) guardable(e ast.Expr) bool {
	ok := true
	ast.Inspect(e, func(n ast.Node) bool {
		switch x := n.(type) {
		case *ast.FuncLit:
			ok = false
		case *ast.UnaryExpr:
			if x.Op == token.ARROW {
				ok = false
			}
		case *ast.CallExpr:
			if tv, isT := w.info().Types[x.Fun]; isT && tv.IsType() {
				return ok // conversion
			}
			f, isI := x.Fun.(*ast.Ident)
			if !isI {
				ok = false
				break
			}
			if _, isB := w.info().Uses[f].(*types.Builtin); !isB || (f.Name != "len" && f.Name != "cap") {
				ok = false
			}
		}
		return ok
	})
	return ok
}

// tracked reports whether the root of a selector/index chain is something
// that can be shared: a package-level variable, a field, a captured local or
// a pointer dereference.
func (w *weaver) tracked(e ast.Expr) bool {
	switch x := e.(type) {
	case *ast.Ident:
		v, ok := w.info().Uses[x].(*types.Var)
		if !ok {
			return false
		}
		return v.Parent() == w.pkg.Types.Scope() || w.captured[v]
	case *ast.SelectorExpr:
		return true
	case *ast.StarExpr:
		return true
	case *ast.ParenExpr:
		return w.tracked(x.X)
	case *ast.IndexExpr:
		return w.tracked(x.X)
	}
	return false
}

func (w *weaver) sliceName(e ast.Expr) (string, bool) {
	t := w.info().TypeOf(e)
	if t == nil {
		return "", false
	}
	if _, ok := t.Underlying().(*types.Slice); !ok {
		return "", false
	}
	return types.TypeString(t, func(p *types.Package) string { return p.Name() }) + "[]", true
}

// ---------------------------------------------------------------------------
// expressions

// expr rewrites an expression tree bottom-up.
func (w *weaver) expr(e ast.Expr) ast.Expr {
	switch e := e.(type) {
	case nil:
		return nil
	case *ast.Ident, *ast.BasicLit:
		return e
	case *ast.FuncLit:
		w.block(e.Body)
		return e
	case *ast.ParenExpr:
		e.X = w.expr(e.X)
		return e
	case *ast.SelectorExpr:
		e.X = w.expr(e.X)
		return e
	case *ast.StarExpr:
		e.X = w.expr(e.X)
		return e
	case *ast.UnaryExpr:
		if e.Op == token.ARROW {
			return w.recv(e, false)
		}
		e.X = w.expr(e.X)
		return e
	case *ast.BinaryExpr:
		e.X = w.expr(e.X)
		e.Y = w.expr(e.Y)
		return e
	case *ast.IndexExpr:
		e.X = w.expr(e.X)
		e.Index = w.expr(e.Index)
		return e
	case *ast.SliceExpr:
		e.X = w.expr(e.X)
		e.Low = w.expr(e.Low)
		e.High = w.expr(e.High)
		e.Max = w.expr(e.Max)
		return e
	case *ast.TypeAssertExpr:
		e.X = w.expr(e.X)
		return e
	case *ast.KeyValueExpr:
		e.Value = w.expr(e.Value)
		return e
	case *ast.CompositeLit:
		for i := range e.Elts {
			e.Elts[i] = w.expr(e.Elts[i])
		}
		return e
	case *ast.CallExpr:
		return w.call(e)
	case *ast.ArrayType, *ast.MapType, *ast.ChanType, *ast.FuncType, *ast.InterfaceType, *ast.StructType, *ast.Ellipsis:
		return e
	}
	fatal("%s: unhandled expression type %T", w.site(e), e)
	return e
}

// callee resolves the called function object, if static.
func (w *weaver) callee(c *ast.CallExpr) types.Object {
	switch f := unparen(c.Fun).(type) {
	case *ast.Ident:
		return w.info().Uses[f]
	case *ast.SelectorExpr:
		if sel, ok := w.info().Selections[f]; ok {
			return sel.Obj()
		}
		return w.info().Uses[f.Sel]
	}
	return nil
}

func recvNamed(fn *types.Func) (pkg, typ string) {
	sig, ok := fn.Type().(*types.Signature)
	if !ok || sig.Recv() == nil {
		return "", ""
	}
	t := sig.Recv().Type()
	if p, ok := t.(*types.Pointer); ok {
		t = p.Elem()
	}
	if n, ok := t.(*types.Named); ok && n.Obj().Pkg() != nil {
		return n.Obj().Pkg().Path(), n.Obj().Name()
	}
	return "", ""
}

func (w *weaver) call(c *ast.CallExpr) ast.Expr {
	site := w.site(c)
	origType := w.info().TypeOf(c)
	obj := w.callee(c)
	origFun := c.Fun
	origArgs := append([]ast.Expr(nil), c.Args...)
	// rewrite children first
	c.Fun = w.expr(c.Fun)
	for i := range c.Args {
		c.Args[i] = w.expr(c.Args[i])
	}
	if b, ok := obj.(*types.Builtin); ok {
		if b.Name() == "close" && len(c.Args) == 1 {
			if !w.pure(c.Args[0]) {
				w.rep.Unsupported = append(w.rep.Unsupported, site+": close of an impure channel expression")
				return c
			}
			w.count("close")
			return w.wrap(kClose, c.Args[0], site, c, nil)
		}
		return c
	}
	fn, ok := obj.(*types.Func)
	if !ok || fn.Pkg() == nil {
		return c
	}
	pkgPath := fn.Pkg().Path()
	rpkg, rtyp := recvNamed(fn)
	name := fn.Name()
	recvExpr := func() ast.Expr {
		sel, ok := unparen(c.Fun).(*ast.SelectorExpr)
		if !ok {
			return nil
		}
		x := sel.X
		if !w.pure(x) {
			return nil
		}
		t := w.info().TypeOf(x)
		if t == nil {
			return nil
		}
		if _, isPtr := t.Underlying().(*types.Pointer); isPtr {
			return x
		}
		if tv, ok := w.info().Types[x]; ok && tv.Addressable() {
			return &ast.UnaryExpr{Op: token.AND, X: x}
		}
		return nil
	}
	switch {
	case rpkg == "sync" && (rtyp == "Mutex" || rtyp == "RWMutex" || rtyp == "WaitGroup" || rtyp == "Once"):
		kind := 0
		switch rtyp + "." + name {
		case "Mutex.Lock", "RWMutex.Lock":
			kind = kLock
		case "Mutex.Unlock", "RWMutex.Unlock":
			kind = kUnlock
		case "RWMutex.RLock":
			kind = kRLock
		case "RWMutex.RUnlock":
			kind = kRUnlock
		case "WaitGroup.Add":
			kind = kWgAdd
		case "WaitGroup.Done":
			kind = kWgDone
		case "WaitGroup.Wait":
			kind = kWgWait
		case "Once.Do":
			kind = kOnce
		default:
			fatal("%s: sync.%s.%s is not modelled by the simulator; refusing to weave", site, rtyp, name)
		}
		x := recvExpr()
		if x == nil {
			fatal("%s: cannot take the identity of the receiver of sync.%s.%s", site, rtyp, name)
		}
		w.count(strings.ToLower(rtyp + "." + name))
		return w.wrap(kind, x, site, c, origType)
	case rpkg == "sync" && rtyp == "Cond":
		// simulated, not executed: see vhCondWait in the generated file
		x := recvExpr()
		if x == nil {
			fatal("%s: cannot take the identity of the receiver of sync.Cond.%s", site, name)
		}
		w.needCond = true
		w.imports["sync"] = "sync"
		w.count("cond." + strings.ToLower(name))
		switch name {
		case "Wait":
			return call("vhCondWait", x, lit(site))
		case "Signal":
			return call("vhCondSignal", x, id("false"), lit(site))
		case "Broadcast":
			return call("vhCondSignal", x, id("true"), lit(site))
		}
		fatal("%s: sync.Cond.%s is not modelled by the simulator; refusing to weave", site, name)
		return nil
	case rpkg == "sync" && (rtyp == "Pool" || rtyp == "Map"):
		// linearizable objects: every method is an acquire and a release on
		// the object (more order than the runtime promises, so no false race
		// through an object handed over by Put/Get or Store/Load)
		x := recvExpr()
		if x == nil {
			fatal("%s: cannot take the identity of the receiver of sync.%s.%s", site, rtyp, name)
		}
		w.count(strings.ToLower(rtyp + "." + name))
		return w.wrap(kAtomic, x, site, c, origType)
	case pkgPath == "sync/atomic":
		var x ast.Expr
		if rtyp != "" {
			x = recvExpr()
		} else if len(c.Args) > 0 && w.pure(c.Args[0]) {
			x = c.Args[0]
		}
		if x == nil {
			fatal("%s: cannot take the identity of the operand of atomic.%s", site, name)
		}
		w.count("atomic")
		return w.wrap(kAtomic, x, site, c, origType)
	case pkgPath == "time" && rtyp == "" && name == "Sleep":
		w.count("sleep")
		return &ast.CallExpr{Fun: id("vhYieldOr"), Args: []ast.Expr{lit(site), thunk(nil, exprStmt(c))}}
	case pkgPath == "runtime" && name == "Gosched":
		w.count("gosched")
		return &ast.CallExpr{Fun: id("vhYieldOr"), Args: []ast.Expr{lit(site), thunk(nil, exprStmt(c))}}
	}
	// I/O fault points
	isIO := false
	if rtyp == "" && (pkgPath == "os" || pkgPath == "io/ioutil") {
		isIO = true
	}
	if (rpkg == "os" && rtyp == "File") || (rpkg == "encoding/gob" && (rtyp == "Encoder" || rtyp == "Decoder")) ||
		(rpkg == "bufio" && (rtyp == "Writer" || rtyp == "Reader")) {
		isIO = true
	}
	if !isIO && fn.Pkg() != w.pkg.Types {
		// any other external call that is handed a file (buf.WriteTo(f),
		// io.Copy(f, r), fmt.Fprintf(f, ...), binary.Write(f, ...)) performs
		// file I/O on the caller's behalf
		isFile := func(e ast.Expr) bool {
			t := w.info().TypeOf(e)
			if t == nil {
				return false
			}
			if p, ok := t.(*types.Pointer); ok {
				if n, ok := p.Elem().(*types.Named); ok && n.Obj().Pkg() != nil && n.Obj().Pkg().Path() == "os" && n.Obj().Name() == "File" {
					return true
				}
			}
			return false
		}
		for _, a := range origArgs {
			if isFile(a) {
				isIO = true
			}
		}
		if sel, ok := unparen(origFun).(*ast.SelectorExpr); ok && isFile(sel.X) {
			isIO = true
		}
	}
	if isIO {
		sig := fn.Type().(*types.Signature)
		res := sig.Results()
		if res.Len() > 0 && types.Identical(res.At(res.Len()-1).Type(), types.Universe.Lookup("error").Type()) {
			kind := strings.ToLower(name)
			w.count("io." + kind)
			w.rep.IOSites[kind] = append(w.rep.IOSites[kind], site)
			return w.ioWrap(kind, site, c, res)
		}
	}
	return c
}

func (w *weaver) qual(p *types.Package) string {
	if p == w.pkg.Types {
		return ""
	}
	w.imports[p.Path()] = p.Name()
	return p.Name()
}

// checkPrintable refuses types that cannot be named at package level.
func (w *weaver) typeString(t types.Type, site string) string {
	bad := false
	var visit func(t types.Type)
	visit = func(t types.Type) {
		switch t := t.(type) {
		case *types.Named:
			o := t.Obj()
			if o.Pkg() != nil && o.Parent() != o.Pkg().Scope() {
				bad = true // function-local type
			}
			if o.Pkg() != nil && o.Pkg() != w.pkg.Types && !o.Exported() {
				bad = true
			}
		case *types.Pointer:
			visit(t.Elem())
		case *types.Slice:
			visit(t.Elem())
		case *types.Array:
			visit(t.Elem())
		case *types.Chan:
			visit(t.Elem())
		case *types.Map:
			visit(t.Key())
			visit(t.Elem())
		}
	}
	visit(t)
	if bad {
		fatal("%s: type %s cannot be named in a generated trampoline", site, t)
	}
	// the predeclared alias "any" needs go1.18; the woven module may declare less
	return anyRE.ReplaceAllString(types.TypeString(t, w.qual), "${1}interface{}")
}

var anyRE = regexp.MustCompile(`(^|[^\w.])any\b`)

func (w *weaver) resultFields(tup *types.Tuple, site string) (*ast.FieldList, []string) {
	if tup == nil || tup.Len() == 0 {
		return nil, nil
	}
	fl := &ast.FieldList{}
	var strs []string
	for i := 0; i < tup.Len(); i++ {
		ts := w.typeString(tup.At(i).Type(), site)
		strs = append(strs, ts)
		fl.List = append(fl.List, &ast.Field{Type: id(ts)})
	}
	return fl, strs
}

func (w *weaver) addTramp(key, src string) string {
	if n, ok := w.tramps[key]; ok {
		return n
	}
	n := fmt.Sprintf("vht%d", len(w.tramps))
	w.tramps[key] = n
	w.order = append(w.order, strings.ReplaceAll(src, "NAME", n))
	return n
}

// wrap builds vhtN(kind, obj, site, func() R { return call }).
func (w *weaver) wrap(kind int, obj ast.Expr, site string, c *ast.CallExpr, typ types.Type) ast.Expr {
	var tup *types.Tuple
	switch t := typ.(type) {
	case nil:
	case *types.Tuple:
		tup = t
	default:
		if b, ok := t.(*types.Basic); !ok || b.Kind() != types.Invalid {
			tup = types.NewTuple(types.NewVar(token.NoPos, nil, "", t))
		}
	}
	fl, strs := w.resultFields(tup, site)
	var src string
	var body []ast.Stmt
	if len(strs) == 0 {
		src = "func NAME(kind int, obj interface{}, site string, f func()) {\n\tg := vhPre(kind, obj, site)\n\tf()\n\tvhPost(g, kind, obj, site, 0)\n}\n"
		body = []ast.Stmt{exprStmt(c)}
	} else {
		rs := "(" + strings.Join(strs, ", ") + ")"
		var names []string
		for i := range strs {
			names = append(names, fmt.Sprintf("r%d", i))
		}
		src = fmt.Sprintf("func NAME(kind int, obj interface{}, site string, f func() %s) %s {\n\tg := vhPre(kind, obj, site)\n\t%s := f()\n\tvhPost(g, kind, obj, site, 0)\n\treturn %s\n}\n",
			rs, rs, strings.Join(names, ", "), strings.Join(names, ", "))
		body = []ast.Stmt{&ast.ReturnStmt{Results: []ast.Expr{c}}}
	}
	n := w.addTramp("wrap:"+strings.Join(strs, ","), src)
	return &ast.CallExpr{Fun: id(n), Args: []ast.Expr{intLit(kind), obj, lit(site), thunk(fl, body...)}}
}

func (w *weaver) ioWrap(kind, site string, c *ast.CallExpr, res *types.Tuple) ast.Expr {
	fl, strs := w.resultFields(res, site)
	rs := "(" + strings.Join(strs, ", ") + ")"
	var names, decls []string
	for i, s := range strs {
		names = append(names, fmt.Sprintf("r%d", i))
		decls = append(decls, fmt.Sprintf("r%d %s", i, s))
	}
	last := names[len(names)-1]
	src := fmt.Sprintf(`func NAME(kind string, site string, f func() %s) (%s) {
	if VerifRT == nil {
		return f()
	}
	g, mode, ferr := VerifRT.IOPre(kind, site)
	if mode == 1 {
		%s = ferr
		VerifRT.IOPost(g, kind, site)
		return
	}
	%s = f()
	if mode == 2 {
		%s = ferr
	}
	VerifRT.IOPost(g, kind, site)
	return
}
`, rs, strings.Join(decls, ", "), last, strings.Join(names, ", "), last)
	n := w.addTramp("io:"+strings.Join(strs, ","), src)
	return &ast.CallExpr{Fun: id(n), Args: []ast.Expr{lit(kind), lit(site),
		thunk(fl, &ast.ReturnStmt{Results: []ast.Expr{c}})}}
}

// recv rewrites <-ch into a trampoline call.
func (w *weaver) recv(u *ast.UnaryExpr, commaOk bool) ast.Expr {
	site := w.site(u)
	t := w.info().TypeOf(u.X)
	u.X = w.expr(u.X)
	ct, ok := t.Underlying().(*types.Chan)
	if !ok {
		fatal("%s: receive from non-channel", site)
	}
	es := w.typeString(ct.Elem(), site)
	w.count("recv")
	var n string
	if commaOk {
		n = w.addTramp("recv2:"+es, fmt.Sprintf("func NAME(ch <-chan %s, site string) (%s, bool) {\n\tg := vhPre(%d, ch, site)\n\tv, ok := <-ch\n\taux := 0\n\tif ok {\n\t\taux = 1\n\t}\n\tvhPost(g, %d, ch, site, aux)\n\treturn v, ok\n}\n", es, es, kRecv, kRecv))
	} else {
		n = w.addTramp("recv:"+es, fmt.Sprintf("func NAME(ch <-chan %s, site string) %s {\n\tg := vhPre(%d, ch, site)\n\tv := <-ch\n\tvhPost(g, %d, ch, site, 0)\n\treturn v\n}\n", es, es, kRecv, kRecv))
	}
	return &ast.CallExpr{Fun: id(n), Args: []ast.Expr{u.X, lit(site)}}
}

// rangeChan rewrites `for k := range ch { body }`.
func (w *weaver) rangeChan(s *ast.RangeStmt) (before []ast.Stmt, repl ast.Stmt, after []ast.Stmt) {
	site := w.site(s)
	t := w.info().TypeOf(s.X)
	ct := t.Underlying().(*types.Chan)
	es := w.typeString(ct.Elem(), site)
	s.X = w.expr(s.X)
	chv := w.tmp("ch")
	okv := w.tmp("ok")
	before = []ast.Stmt{&ast.AssignStmt{Lhs: []ast.Expr{id(chv)}, Tok: token.DEFINE, Rhs: []ast.Expr{s.X}}}
	n := w.addTramp("recv2:"+es, fmt.Sprintf("func NAME(ch <-chan %s, site string) (%s, bool) {\n\tg := vhPre(%d, ch, site)\n\tv, ok := <-ch\n\taux := 0\n\tif ok {\n\t\taux = 1\n\t}\n\tvhPost(g, %d, ch, site, aux)\n\treturn v, ok\n}\n", es, es, kRecv, kRecv))
	rcv := &ast.CallExpr{Fun: id(n), Args: []ast.Expr{id(chv), lit(site)}}
	var head []ast.Stmt
	key := s.Key
	if key == nil {
		key = id("_")
	}
	if s.Tok == token.ASSIGN {
		head = append(head,
			&ast.DeclStmt{Decl: &ast.GenDecl{Tok: token.VAR, Specs: []ast.Spec{&ast.ValueSpec{Names: []*ast.Ident{id(okv)}, Type: id("bool")}}}},
			&ast.AssignStmt{Lhs: []ast.Expr{key, id(okv)}, Tok: token.ASSIGN, Rhs: []ast.Expr{rcv}})
	} else {
		head = append(head, &ast.AssignStmt{Lhs: []ast.Expr{key, id(okv)}, Tok: token.DEFINE, Rhs: []ast.Expr{rcv}})
	}
	head = append(head, &ast.IfStmt{Cond: &ast.UnaryExpr{Op: token.NOT, X: id(okv)}, Body: &ast.BlockStmt{List: []ast.Stmt{&ast.BranchStmt{Tok: token.BREAK}}}})
	w.block(s.Body)
	w.count("rangechan")
	body := append(head, s.Body.List...)
	repl = &ast.ForStmt{Body: &ast.BlockStmt{List: body}}
	return
}

func (w *weaver) selectStmt(s *ast.SelectStmt) (before []ast.Stmt, repl ast.Stmt, after []ast.Stmt) {
	repl = s
	site := w.site(s)
	var comm []*ast.CommClause
	hasDefault := false
	for _, c := range s.Body.List {
		cc := c.(*ast.CommClause)
		if cc.Comm == nil {
			hasDefault = true
		} else {
			comm = append(comm, cc)
		}
	}
	weaveBodies := func() {
		for _, c := range s.Body.List {
			cc := c.(*ast.CommClause)
			cc.Body = w.stmts(cc.Body)
		}
	}
	if len(comm) > 1 {
		if b, r, ok := w.multiSelect(s, comm, hasDefault); ok {
			return b, r, nil
		}
	}
	if len(comm) != 1 {
		// Not expressible (or a bare `select {}`): leave it alone and flag it
		// if it ever executes.
		weaveBodies()
		before = []ast.Stmt{w.unsupported(fmt.Sprintf("select with %d communication cases", len(comm)), s)}
		return
	}
	cc := comm[0]
	var ch ast.Expr
	isSend := false
	switch c := cc.Comm.(type) {
	case *ast.SendStmt:
		ch, isSend = c.Chan, true
	case *ast.ExprStmt:
		if u, ok := unparen(c.X).(*ast.UnaryExpr); ok && u.Op == token.ARROW {
			ch = u.X
		}
	case *ast.AssignStmt:
		if len(c.Rhs) == 1 {
			if u, ok := unparen(c.Rhs[0]).(*ast.UnaryExpr); ok && u.Op == token.ARROW {
				ch = u.X
			}
		}
	}
	if ch == nil || !w.pure(ch) {
		weaveBodies()
		before = []ast.Stmt{w.unsupported("select on an unanalysable channel expression", s)}
		return
	}
	kind := kSelRecv
	if isSend {
		kind = kSelSend
	}
	if !hasDefault {
		// a blocking single-case select is an ordinary channel operation
		kind = kRecv
		if isSend {
			kind = kSend
		}
	}
	weaveBodies()
	w.count("select")
	tk := w.tmp("g")
	before = []ast.Stmt{&ast.AssignStmt{Lhs: []ast.Expr{id(tk)}, Tok: token.DEFINE, Rhs: []ast.Expr{call("vhPre", intLit(kind), ch, lit(site))}}}
	for _, c := range s.Body.List {
		x := c.(*ast.CommClause)
		aux := 0
		if x.Comm != nil {
			aux = 1
		}
		x.Body = append([]ast.Stmt{exprStmt(call("vhPost", id(tk), intLit(kind), ch, lit(site), intLit(aux)))}, x.Body...)
	}
	return
}

// multiSelect rewrites a select with several communication cases so that the
// simulator, not Go's runtime, decides which ready case is taken: the cases are
// tried one at a time, non-blockingly, in an order the simulator chooses; if
// none is ready the default is taken or the goroutine blocks in the real
// select. The bodies move into a switch on the index of the case taken.
func (w *weaver) multiSelect(s *ast.SelectStmt, comm []*ast.CommClause, hasDefault bool) (before []ast.Stmt, repl ast.Stmt, ok bool) {
	site := w.site(s)
	type caseInfo struct {
		ch     string
		send   bool
		comm   ast.Stmt // the rewritten communication, usable in several selects
		prolog []ast.Stmt
		clause *ast.CommClause
	}
	var infos []caseInfo
	var decls []ast.Stmt
	for _, cc := range comm {
		ci := caseInfo{clause: cc}
		var chExpr ast.Expr
		switch c := cc.Comm.(type) {
		case *ast.SendStmt:
			chExpr, ci.send = c.Chan, true
		case *ast.ExprStmt:
			u, isRecv := unparen(c.X).(*ast.UnaryExpr)
			if !isRecv || u.Op != token.ARROW {
				return nil, nil, false
			}
			chExpr = u.X
		case *ast.AssignStmt:
			if len(c.Rhs) != 1 {
				return nil, nil, false
			}
			u, isRecv := unparen(c.Rhs[0]).(*ast.UnaryExpr)
			if !isRecv || u.Op != token.ARROW {
				return nil, nil, false
			}
			chExpr = u.X
		default:
			return nil, nil, false
		}
		if t := w.info().TypeOf(chExpr); t == nil {
			return nil, nil, false
		}
		ci.ch = w.tmp("c")
		decls = append(decls, &ast.AssignStmt{Lhs: []ast.Expr{id(ci.ch)}, Tok: token.DEFINE, Rhs: []ast.Expr{w.expr(chExpr)}})
		recvExpr := &ast.UnaryExpr{Op: token.ARROW, X: id(ci.ch)}
		switch c := cc.Comm.(type) {
		case *ast.SendStmt:
			ci.comm = &ast.SendStmt{Chan: id(ci.ch), Value: w.expr(c.Value)}
		case *ast.ExprStmt:
			ci.comm = exprStmt(recvExpr)
		case *ast.AssignStmt:
			if c.Tok == token.ASSIGN {
				lhs := make([]ast.Expr, len(c.Lhs))
				for i := range c.Lhs {
					lhs[i] = w.expr(c.Lhs[i])
				}
				ci.comm = &ast.AssignStmt{Lhs: lhs, Tok: token.ASSIGN, Rhs: []ast.Expr{recvExpr}}
				break
			}
			// x[, ok] := <-ch : hoist to uniquely named variables, re-declare
			// the original names at the top of the case body
			ct, isChan := w.info().TypeOf(chExpr).Underlying().(*types.Chan)
			if !isChan {
				return nil, nil, false
			}
			var lhs []ast.Expr
			for i, l := range c.Lhs {
				name, isIdent := l.(*ast.Ident)
				if !isIdent {
					return nil, nil, false
				}
				tv := w.tmp("v")
				typ := "bool"
				if i == 0 {
					typ = w.typeString(ct.Elem(), site)
				}
				decls = append(decls, &ast.DeclStmt{Decl: &ast.GenDecl{Tok: token.VAR, Specs: []ast.Spec{&ast.ValueSpec{Names: []*ast.Ident{id(tv)}, Type: id(typ)}}}})
				lhs = append(lhs, id(tv))
				if name.Name != "_" {
					ci.prolog = append(ci.prolog,
						&ast.AssignStmt{Lhs: []ast.Expr{id(name.Name)}, Tok: token.DEFINE, Rhs: []ast.Expr{id(tv)}},
						&ast.AssignStmt{Lhs: []ast.Expr{id("_")}, Tok: token.ASSIGN, Rhs: []ast.Expr{id(name.Name)}})
				}
			}
			ci.comm = &ast.AssignStmt{Lhs: lhs, Tok: token.ASSIGN, Rhs: []ast.Expr{recvExpr}}
		}
		infos = append(infos, ci)
	}
	// try(i): one non-blocking attempt at case i
	var tryCases []ast.Stmt
	var blockCases []ast.Stmt
	var chans, sends []ast.Expr
	for i, ci := range infos {
		tryCases = append(tryCases, &ast.CaseClause{List: []ast.Expr{intLit(i)}, Body: []ast.Stmt{
			&ast.SelectStmt{Body: &ast.BlockStmt{List: []ast.Stmt{
				&ast.CommClause{Comm: ci.comm, Body: []ast.Stmt{&ast.ReturnStmt{Results: []ast.Expr{id("true")}}}},
				&ast.CommClause{},
			}}},
		}})
		blockCases = append(blockCases, &ast.CommClause{Comm: ci.comm, Body: []ast.Stmt{&ast.ReturnStmt{Results: []ast.Expr{intLit(i)}}}})
		chans = append(chans, id(ci.ch))
		sends = append(sends, id(strconv.FormatBool(ci.send)))
	}
	try := &ast.FuncLit{
		Type: &ast.FuncType{Params: &ast.FieldList{List: []*ast.Field{{Names: []*ast.Ident{id("vhi")}, Type: id("int")}}}, Results: &ast.FieldList{List: []*ast.Field{{Type: id("bool")}}}},
		Body: &ast.BlockStmt{List: []ast.Stmt{
			&ast.SwitchStmt{Tag: id("vhi"), Body: &ast.BlockStmt{List: tryCases}},
			&ast.ReturnStmt{Results: []ast.Expr{id("false")}},
		}},
	}
	var block ast.Expr = id("nil")
	if !hasDefault {
		block = &ast.FuncLit{
			Type: &ast.FuncType{Params: &ast.FieldList{}, Results: &ast.FieldList{List: []*ast.Field{{Type: id("int")}}}},
			Body: &ast.BlockStmt{List: []ast.Stmt{&ast.SelectStmt{Body: &ast.BlockStmt{List: blockCases}}}},
		}
	}
	sel := w.tmp("sel")
	anyT := &ast.InterfaceType{Methods: &ast.FieldList{}}
	decls = append(decls, &ast.AssignStmt{Lhs: []ast.Expr{id(sel)}, Tok: token.DEFINE, Rhs: []ast.Expr{
		&ast.CallExpr{Fun: id("vhSelectN"), Args: []ast.Expr{lit(site),
			&ast.CompositeLit{Type: &ast.ArrayType{Elt: anyT}, Elts: chans},
			&ast.CompositeLit{Type: &ast.ArrayType{Elt: id("bool")}, Elts: sends},
			id(strconv.FormatBool(hasDefault)), try, block}}}})
	// bodies
	var sw []ast.Stmt
	n := 0
	for _, c := range s.Body.List {
		cc := c.(*ast.CommClause)
		body := w.stmts(cc.Body)
		if cc.Comm == nil {
			sw = append(sw, &ast.CaseClause{Body: body})
			continue
		}
		body = append(append([]ast.Stmt(nil), infos[n].prolog...), body...)
		sw = append(sw, &ast.CaseClause{List: []ast.Expr{intLit(n)}, Body: body})
		n++
	}
	w.needSelectN = true
	w.imports["math/rand"] = "rand"
	w.count("multiselect")
	return decls, &ast.SwitchStmt{Tag: id(sel), Body: &ast.BlockStmt{List: sw}}, true
}

// goStmt rewrites `go f(args)`.
func (w *weaver) goStmt(s *ast.GoStmt) ast.Stmt {
	site := w.site(s)
	c := s.Call
	var pre []ast.Stmt
	// evaluate the function value's receiver and the arguments now, as the
	// go statement does
	if sel, ok := unparen(c.Fun).(*ast.SelectorExpr); ok {
		if _, isSel := w.info().Selections[sel]; isSel {
			if t := w.info().TypeOf(sel.X); t != nil {
				if _, isPtr := t.Underlying().(*types.Pointer); isPtr {
					tv := w.tmp("r")
					pre = append(pre, &ast.AssignStmt{Lhs: []ast.Expr{id(tv)}, Tok: token.DEFINE, Rhs: []ast.Expr{w.expr(sel.X)}})
					sel.X = id(tv)
				}
			}
		}
	} else if fl, ok := unparen(c.Fun).(*ast.FuncLit); ok {
		w.block(fl.Body)
	} else {
		c.Fun = w.expr(c.Fun)
	}
	for i, a := range c.Args {
		tv := w.tmp("a")
		pre = append(pre, &ast.AssignStmt{Lhs: []ast.Expr{id(tv)}, Tok: token.DEFINE, Rhs: []ast.Expr{w.expr(a)}})
		c.Args[i] = id(tv)
	}
	if c.Ellipsis.IsValid() {
		// f(xs...) keeps working with a temporary
	}
	tok := w.tmp("tok")
	w.count("go")
	body := []ast.Stmt{
		exprStmt(call("vhStart", id(tok))),
		&ast.DeferStmt{Call: &ast.CallExpr{Fun: thunk(nil,
			&ast.AssignStmt{Lhs: []ast.Expr{id("vhr")}, Tok: token.DEFINE, Rhs: []ast.Expr{call("recover")}},
			exprStmt(call("vhExit", id(tok), id("vhr"))),
		)}},
		exprStmt(c),
	}
	list := append(pre,
		&ast.AssignStmt{Lhs: []ast.Expr{id(tok)}, Tok: token.DEFINE, Rhs: []ast.Expr{call("vhSpawn", lit(site))}},
		&ast.GoStmt{Call: &ast.CallExpr{Fun: thunk(nil, body...)}},
		exprStmt(call("vhSpawned", id(tok), lit(site))),
	)
	return &ast.BlockStmt{List: list}
}

// ---------------------------------------------------------------------------
// field-access collection

type acc struct {
	expr  ast.Expr
	text  string
	name  string
	write bool
	// element accesses: expr is the slice, idx the first index, cnt the
	// number of elements; app marks an append (indices len..len+cnt-1, only
	// if it happens in place)
	idx ast.Expr
	cnt ast.Expr
	app bool
	// ptr: expr already is the address (access through a pointer, *p)
	ptr bool
	// guard: the access is only evaluated when this (side-effect free)
	// condition holds: the right operand of && or ||
	guard ast.Expr
}

func (w *weaver) exprText(e ast.Expr) string {
	var b bytes.Buffer
	format.Node(&b, w.pkg.Fset, e)
	return b.String()
}

// unsafeForConcurrentUse lists standard-library types whose methods must not
// be called from several goroutines without synchronisation.
func unsafeForConcurrentUse(pkg, typ string) bool {
	switch pkg + "." + typ {
	case "math/rand.Rand", "bytes.Buffer", "strings.Builder", "bufio.Reader", "bufio.Writer", "bufio.Scanner",
		"container/list.List", "container/ring.Ring", "encoding/json.Encoder", "encoding/json.Decoder",
		"encoding/csv.Writer", "encoding/csv.Reader", "text/tabwriter.Writer":
		return true
	}
	return false
}

func isSyncType(t types.Type) bool {
	for {
		if p, ok := t.(*types.Pointer); ok {
			t = p.Elem()
			continue
		}
		break
	}
	if _, ok := t.Underlying().(*types.Chan); ok {
		return true
	}
	if n, ok := t.(*types.Named); ok && n.Obj().Pkg() != nil {
		switch n.Obj().Pkg().Path() {
		case "sync", "sync/atomic":
			return true
		}
	}
	return false
}

// collect finds the shared-location accesses evaluated by the statement
// itself (not by nested statement bodies or function literals).
func (w *weaver) collect(s ast.Stmt) []acc {
	var out []acc
	simpleStmt := false
	var visit func(e ast.Expr, write bool)
	add := func(e ast.Expr, write bool) {
		var name string
		switch x := e.(type) {
		case *ast.SelectorExpr:
			sel, ok := w.info().Selections[x]
			if !ok || sel.Kind() != types.FieldVal {
				return
			}
			v, ok := sel.Obj().(*types.Var)
			if !ok || v.Pkg() != w.pkg.Types || isSyncType(v.Type()) {
				return
			}
			if !w.pure(x.X) {
				return
			}
			tv, ok := w.info().Types[x]
			if !ok || !tv.Addressable() {
				return
			}
			rt := sel.Recv()
			if p, ok := rt.(*types.Pointer); ok {
				rt = p.Elem()
			}
			rn := ""
			if n, ok := rt.(*types.Named); ok {
				rn = n.Obj().Name() + "."
			}
			name = rn + v.Name()
		case *ast.Ident:
			v, ok := w.info().Uses[x].(*types.Var)
			if !ok || v.Pkg() != w.pkg.Types || isSyncType(v.Type()) {
				return
			}
			if v.Parent() != w.pkg.Types.Scope() {
				if !w.captured[v] {
					return
				}
				name = "local " + v.Name()
				break
			}
			name = v.Name()
		default:
			return
		}
		out = append(out, acc{expr: e, text: w.exprText(e), name: name, write: write})
	}
	visit = func(e ast.Expr, write bool) {
		switch e := e.(type) {
		case nil:
		case *ast.Ident:
			add(e, write)
		case *ast.SelectorExpr:
			add(e, write)
			visit(e.X, false)
		case *ast.ParenExpr:
			visit(e.X, write)
		case *ast.StarExpr:
			// access through a pointer: the location is the pointer's value
			if t := w.info().TypeOf(e.X); t != nil && w.pure(e.X) {
				if pt, ok := t.Underlying().(*types.Pointer); ok && !isSyncType(pt.Elem()) {
					out = append(out, acc{expr: e.X, ptr: true, text: "*" + w.exprText(e.X), name: "*" + types.TypeString(pt.Elem(), func(p *types.Package) string { return p.Name() }), write: write})
				}
			}
			visit(e.X, false)
		case *ast.UnaryExpr:
			if e.Op == token.AND {
				visit(e.X, true) // address taken: may be written through
			} else {
				visit(e.X, false)
			}
		case *ast.BinaryExpr:
			visit(e.X, false)
			if e.Op != token.LAND && e.Op != token.LOR {
				visit(e.Y, false)
			} else if w.guardable(e.X) {
				// a short-circuit operand is evaluated only if the left operand
				// allows it: its accesses are annotated under that condition
				n := len(out)
				visit(e.Y, false)
				var g ast.Expr = &ast.ParenExpr{X: e.X}
				if e.Op == token.LOR {
					g = &ast.UnaryExpr{Op: token.NOT, X: g}
				}
				for i := n; i < len(out); i++ {
					if out[i].guard == nil {
						out[i].guard = g
					} else {
						out[i].guard = &ast.BinaryExpr{X: g, Op: token.LAND, Y: &ast.ParenExpr{X: out[i].guard}}
					}
				}
			}
		case *ast.IndexExpr:
			if name, ok := w.sliceName(e.X); ok && w.pure(e.X) && w.pure(e.Index) {
				out = append(out, acc{expr: e.X, idx: e.Index, cnt: intLit(1), text: w.exprText(e), name: name, write: write})
			} else if t := w.info().TypeOf(e.X); t != nil && w.pure(e.X) && w.pure(e.Index) {
				// element of an array variable (or of an array behind a pointer):
				// the location is the element itself
				at := t.Underlying()
				if p, ok := at.(*types.Pointer); ok {
					at = p.Elem().Underlying()
				}
				if arr, ok := at.(*types.Array); ok && !isSyncType(arr.Elem()) {
					if tv, ok := w.info().Types[e]; ok && tv.Addressable() && w.tracked(e.X) {
						out = append(out, acc{expr: e, text: w.exprText(e), name: types.TypeString(t, func(p *types.Package) string { return p.Name() }) + "[]", write: write})
					}
				}
			}
			if write {
				if t := w.info().TypeOf(e.X); t != nil {
					if _, isMap := t.Underlying().(*types.Map); isMap {
						visit(e.X, true)
						visit(e.Index, false)
						return
					}
				}
			}
			visit(e.X, false)
			visit(e.Index, false)
		case *ast.SliceExpr:
			visit(e.X, false)
			visit(e.Low, false)
			visit(e.High, false)
			visit(e.Max, false)
		case *ast.TypeAssertExpr:
			visit(e.X, false)
		case *ast.KeyValueExpr:
			visit(e.Value, false)
		case *ast.CompositeLit:
			for _, x := range e.Elts {
				visit(x, false)
			}
		case *ast.CallExpr:
			if fn, ok := w.callee(e).(*types.Func); ok {
				// a method of a standard-library type that is documented as not
				// safe for concurrent use: the call is a write to the object
				if rp, rt := recvNamed(fn); unsafeForConcurrentUse(rp, rt) {
					if sel, ok := unparen(e.Fun).(*ast.SelectorExpr); ok && w.pure(sel.X) {
						if t := w.info().TypeOf(sel.X); t != nil {
							if _, isPtr := t.Underlying().(*types.Pointer); isPtr {
								out = append(out, acc{expr: sel.X, ptr: true, text: "obj:" + w.exprText(sel.X), name: rp + "." + rt, write: true})
							} else if tv, ok := w.info().Types[sel.X]; ok && tv.Addressable() {
								out = append(out, acc{expr: sel.X, text: "obj:" + w.exprText(sel.X), name: rp + "." + rt, write: true})
							}
						}
					}
				}
			}
			if b, ok := w.callee(e).(*types.Builtin); ok && b.Name() == "append" && len(e.Args) >= 1 && simpleStmt {
				if name, ok := w.sliceName(e.Args[0]); ok && w.pure(e.Args[0]) {
					var cnt ast.Expr = intLit(len(e.Args) - 1)
					okCnt := true
					if e.Ellipsis.IsValid() {
						if len(e.Args) == 2 && w.pure(e.Args[1]) {
							cnt = call("len", e.Args[1])
						} else {
							okCnt = false
						}
					}
					if okCnt {
						out = append(out, acc{expr: e.Args[0], cnt: cnt, app: true, text: "append:" + w.exprText(e.Args[0]), name: name, write: true})
					}
				}
			}
			if fn, ok := w.callee(e).(*types.Func); ok && fn.Pkg() != nil && fn.Pkg().Path() == "sync/atomic" {
				// operands of atomic operations are synchronisation, not plain accesses
				for _, a := range e.Args {
					if u, ok := unparen(a).(*ast.UnaryExpr); ok && u.Op == token.AND {
						continue
					}
					visit(a, false)
				}
				return
			}
			// pointer-receiver method on an addressable field: may write
			if sel, ok := unparen(e.Fun).(*ast.SelectorExpr); ok {
				if s, ok := w.info().Selections[sel]; ok && s.Kind() == types.MethodVal {
					ptrRecv := false
					if sig, ok := s.Obj().Type().(*types.Signature); ok && sig.Recv() != nil {
						_, ptrRecv = sig.Recv().Type().(*types.Pointer)
					}
					_, xIsPtr := w.info().TypeOf(sel.X).Underlying().(*types.Pointer)
					visit(sel.X, ptrRecv && !xIsPtr)
				} else {
					visit(sel.X, false)
				}
			} else {
				visit(e.Fun, false)
			}
			for _, a := range e.Args {
				visit(a, false)
			}
		case *ast.FuncLit, *ast.BasicLit:
		}
	}
	// an append can be annotated before its statement only if the statement
	// performs no other call (which might synchronise)
	ncalls := 0
	ast.Inspect(s, func(n ast.Node) bool {
		switch x := n.(type) {
		case *ast.FuncLit:
			return false
		case *ast.CallExpr:
			if tv, ok := w.info().Types[x.Fun]; ok && tv.IsType() {
				return true // conversion
			}
			if f, ok := x.Fun.(*ast.Ident); ok {
				if _, isB := w.info().Uses[f].(*types.Builtin); isB && (f.Name == "len" || f.Name == "cap") {
					return true
				}
			}
			ncalls++
		case *ast.UnaryExpr:
			if x.Op == token.ARROW {
				ncalls += 2
			}
		}
		return true
	})
	if as, ok := s.(*ast.AssignStmt); ok && ncalls == 1 {
		simpleStmt = len(as.Rhs) == 1
	}
	switch s := s.(type) {
	case *ast.ExprStmt:
		visit(s.X, false)
	case *ast.SendStmt:
		visit(s.Chan, false)
		visit(s.Value, false)
	case *ast.IncDecStmt:
		visit(s.X, true)
	case *ast.AssignStmt:
		for _, l := range s.Lhs {
			if s.Tok == token.DEFINE {
				continue
			}
			visit(l, true)
		}
		for _, r := range s.Rhs {
			visit(r, false)
		}
	case *ast.ReturnStmt:
		for _, r := range s.Results {
			visit(r, false)
		}
	case *ast.DeferStmt:
		for _, a := range s.Call.Args {
			visit(a, false)
		}
	case *ast.GoStmt:
		for _, a := range s.Call.Args {
			visit(a, false)
		}
	case *ast.IfStmt:
		if s.Init != nil {
			out = append(out, w.collect(s.Init)...) // `if v, ok := shared[k]; ok`
		}
		visit(s.Cond, false)
	case *ast.ForStmt:
		if s.Init != nil {
			out = append(out, w.collect(s.Init)...)
		}
		visit(s.Cond, false)
	case *ast.RangeStmt:
		visit(s.X, false)
	case *ast.SwitchStmt:
		if s.Init != nil {
			out = append(out, w.collect(s.Init)...)
		}
		{
			visit(s.Tag, false)
			if len(s.Body.List) > 0 {
				if cc := s.Body.List[0].(*ast.CaseClause); len(cc.List) > 0 {
					visit(cc.List[0], false)
				}
			}
		}
	case *ast.DeclStmt:
		if gd, ok := s.Decl.(*ast.GenDecl); ok {
			for _, sp := range gd.Specs {
				if vs, ok := sp.(*ast.ValueSpec); ok {
					for _, v := range vs.Values {
						visit(v, false)
					}
				}
			}
		}
	}
	// annotations go before the statement: drop those that mention a variable
	// the statement's own init clause declares
	var init ast.Stmt
	switch x := s.(type) {
	case *ast.IfStmt:
		init = x.Init
	case *ast.ForStmt:
		init = x.Init
	case *ast.SwitchStmt:
		init = x.Init
	}
	if init != nil {
		kept := out[:0]
		for _, a := range out {
			local := false
			ast.Inspect(a.expr, func(n ast.Node) bool {
				if idn, ok := n.(*ast.Ident); ok {
					if o := w.info().Uses[idn]; o != nil && o.Pos() >= init.Pos() && o.Pos() <= init.End() {
						local = true
					}
				}
				return true
			})
			if a.idx != nil {
				ast.Inspect(a.idx, func(n ast.Node) bool {
					if idn, ok := n.(*ast.Ident); ok {
						if o := w.info().Uses[idn]; o != nil && o.Pos() >= init.Pos() && o.Pos() <= init.End() {
							local = true
						}
					}
					return true
				})
			}
			if a.guard != nil {
				ast.Inspect(a.guard, func(n ast.Node) bool {
					if idn, ok := n.(*ast.Ident); ok {
						if o := w.info().Uses[idn]; o != nil && o.Pos() >= init.Pos() && o.Pos() <= init.End() {
							local = true
						}
					}
					return true
				})
			}
			if !local {
				kept = append(kept, a)
			}
		}
		out = kept
	}
	return out
}

// ---------------------------------------------------------------------------

func (w *weaver) genFile() []byte {
	var b bytes.Buffer
	fmt.Fprintf(&b, "// Code generated by /verif/weave. DO NOT EDIT.\n\npackage %s\n\n", w.pkg.Name)
	var paths []string
	for p := range w.imports {
		paths = append(paths, p)
	}
	sort.Strings(paths)
	if len(paths) > 0 {
		b.WriteString("import (\n")
		for _, p := range paths {
			fmt.Fprintf(&b, "\t%s %q\n", w.imports[p], p)
		}
		b.WriteString(")\n\n")
	}
	b.WriteString(`// VerifRuntime is what the simulator implements.
type VerifRuntime interface {
	Pre(kind int, obj interface{}, site string) int
	Post(g int, kind int, obj interface{}, site string, aux int)
	Acc(addr interface{}, name string, write bool, site string)
	AccIdx(slice interface{}, first, n int, name string, write bool, site string)
	IOPre(kind string, site string) (int, int, error)
	IOPost(g int, kind string, site string)
	Spawn(site string) int
	Spawned(tok int, site string)
	Start(tok int)
	Exit(tok int, r interface{})
	Unsupported(what string, site string)
	CondAdd(obj interface{}, site string) int
	Yield(site string) bool
	SelectPre(site string, n int) (int, int)
	SelectBlock(g int, site string, chans []interface{})
	SelectPost(g int, site string, ch interface{}, send bool, taken int)
}

// VerifRT is nil outside the simulator: every hook is then a no-op and the
// package behaves exactly like the unwoven source.
var VerifRT VerifRuntime

// VerifOn is set by the simulator for the duration of a run; the access
// annotations (the hot ones) are skipped when it is false.
var VerifOn bool

// vhPre yields before an operation and returns the caller's simulated
// goroutine (negative if the caller is not simulated); vhPost takes it back,
// since the goroutine that completes an operation is the one that began it.
func vhPre(kind int, obj interface{}, site string) int {
	if VerifRT != nil {
		return VerifRT.Pre(kind, obj, site)
	}
	return -1
}

func vhPost(g int, kind int, obj interface{}, site string, aux int) {
	if VerifRT != nil && g >= 0 {
		VerifRT.Post(g, kind, obj, site, aux)
	}
}

func vhAcc(f func() interface{}, name string, write bool, site string) {
	if VerifRT == nil {
		return
	}
	var p interface{}
	func() {
		defer func() { recover() }()
		p = f()
	}()
	if p != nil {
		VerifRT.Acc(p, name, write, site)
	}
}

func vhAccIdx(f func() (interface{}, int, int), name string, write bool, site string) {
	if VerifRT == nil {
		return
	}
	var sl interface{}
	var i, n int
	ok := false
	func() {
		defer func() { recover() }()
		sl, i, n = f()
		ok = true
	}()
	if ok && sl != nil {
		VerifRT.AccIdx(sl, i, n, name, write, site)
	}
}

func vhSpawn(site string) int {
	if VerifRT != nil {
		return VerifRT.Spawn(site)
	}
	return -1
}

func vhSpawned(tok int, site string) {
	if VerifRT != nil {
		VerifRT.Spawned(tok, site)
	}
}

func vhStart(tok int) {
	if VerifRT != nil {
		VerifRT.Start(tok)
	}
}

func vhExit(tok int, r interface{}) {
	if VerifRT != nil {
		VerifRT.Exit(tok, r)
	} else if r != nil {
		panic(r)
	}
}

func vhUnsupported(what string, site string) {
	if VerifRT != nil {
		VerifRT.Unsupported(what, site)
	}
}

func vhYieldOr(site string, real func()) {
	if VerifRT != nil && VerifRT.Yield(site) {
		return
	}
	real()
}

`)
	if w.needSelectN {
		b.WriteString(`// vhSelectN runs a select with several communication cases: see multiSelect
// in /verif/weave. Outside the simulator the cases are tried in random order,
// which is the distribution Go's select has.
func vhSelectN(site string, chans []interface{}, sends []bool, hasDefault bool, try func(int) bool, block func() int) int {
	n := len(chans)
	g, start := -1, 0
	if VerifRT != nil {
		g, start = VerifRT.SelectPre(site, n)
	}
	if g < 0 {
		for _, i := range rand.Perm(n) {
			if try(i) {
				return i
			}
		}
		if hasDefault {
			return -1
		}
		return block()
	}
	for k := 0; k < n; k++ {
		i := (start + k) % n
		if try(i) {
			VerifRT.SelectPost(g, site, chans[i], sends[i], 1)
			return i
		}
	}
	if hasDefault {
		VerifRT.SelectPost(g, site, nil, false, 0)
		return -1
	}
	VerifRT.SelectBlock(g, site, chans)
	i := block()
	VerifRT.SelectPost(g, site, chans[i], sends[i], 1)
	return i
}

`)
	}
	if w.needCond {
		b.WriteString(`// sync.Cond is simulated: a waiter registers, unlocks, parks until a
// Signal/Broadcast picks it (in registration order, like the runtime) and
// locks again; the real Cond has no waiters and is never called.
func vhCondWait(c *sync.Cond, site string) {
	g := -1
	if VerifRT != nil {
		g = VerifRT.CondAdd(c, site)
	}
	if g < 0 {
		c.Wait()
		return
	}
	vhLocker(c.L, false, site)
	VerifRT.Post(VerifRT.Pre(22, c, site), 22, c, site, 0)
	vhLocker(c.L, true, site)
}

func vhCondSignal(c *sync.Cond, all bool, site string) {
	kind := 23
	if all {
		kind = 24
	}
	g := vhPre(kind, c, site)
	if g < 0 {
		if all {
			c.Broadcast()
		} else {
			c.Signal()
		}
		return
	}
	vhPost(g, kind, c, site, 0)
}

func vhLocker(l sync.Locker, lock bool, site string) {
	var obj interface{}
	switch m := l.(type) {
	case *sync.Mutex:
		obj = m
	case *sync.RWMutex:
		obj = m
	default:
		vhUnsupported("sync.Cond over a Locker that is neither *sync.Mutex nor *sync.RWMutex", site)
	}
	kind := 7
	if lock {
		kind = 6
	}
	g := vhPre(kind, obj, site)
	if lock {
		l.Lock()
	} else {
		l.Unlock()
	}
	vhPost(g, kind, obj, site, 0)
}

`)
	}
	for _, src := range w.order {
		b.WriteString(src)
		b.WriteString("\n")
	}
	out, err := format.Source(b.Bytes())
	if err != nil {
		fatal("generated file does not parse: %v\n%s", err, b.String())
	}
	return out
}
